#!/usr/bin/env python3
"""E5: the tape-geometry functions of hpbf, translated from the compiler's MIR into SMT-LIB.

The MIR of `runtime::Memory::{make_accessible, check, check_ptr, read (bounds part),
mov, set_current_ptr, current_ptr}` is regenerated from /repo's current source on every
run (`cargo +nightly rustc -- -Zunpretty=mir` on a scratch copy), parsed, and executed
symbolically over 64-bit bit-vectors: every local, the three `Memory` fields (buffer, size,
offset), and the arguments are solver terms; `switchInt` forks; the `*WithOverflow` + `assert`
pairs are panic paths; heap effects (`Layout::array`, `alloc_zeroed`, `copy_to_nonoverlapping`,
`dealloc`) are recorded as events.  Any MIR construct outside the supported list makes the run
inconclusive (exit 2).  The lemmas below are then decided for *all* geometries within the stated
preconditions by `cvc5 --solve-bv-as-int=sum` (primary: these are 64-bit linear-arithmetic /
min-max queries that stall bit-blasting) with cvc5 bit-blasting and z3 as further opinions;
a `sat` answer yields a concrete geometry that is replayed natively through the public
`Memory` API (`symx memreplay`) before it is reported.
"""
import json, os, re, shutil, subprocess, sys, tempfile, time

REPO = os.environ.get("HPBF_REPO", "/repo")
ROOT = os.environ.get("VERIF_ROOT", "/verif")
W = 64


class Unsupported(Exception):
    pass


# ----------------------------------------------------------------------------- MIR parsing

def dump_mir():
    scratch = tempfile.mkdtemp(prefix="mir2smt-")
    try:
        for item in ("src", "Cargo.toml", "Cargo.lock", "benches"):
            src = os.path.join(REPO, item)
            if os.path.isdir(src):
                shutil.copytree(src, os.path.join(scratch, item))
            elif os.path.exists(src):
                shutil.copy(src, os.path.join(scratch, item))
        env = dict(os.environ, CARGO_NET_OFFLINE="true", CARGO_TARGET_DIR=os.path.join(scratch, "target"))
        env.pop("RUSTFLAGS", None)
        p = subprocess.run(["cargo", "+nightly", "rustc", "--offline", "--lib", "--", "-Zunpretty=mir",
                            "-C", "debug-assertions=off", "-C", "overflow-checks=on"],
                           cwd=scratch, env=env, capture_output=True, text=True, timeout=600)
        if p.returncode != 0 or not p.stdout.strip():
            raise Unsupported("MIR dump failed: " + p.stderr[-400:])
        return p.stdout
    finally:
        shutil.rmtree(scratch, ignore_errors=True)


def find_fn(mir, needle):
    m = re.search(r"^fn [^\n]*" + re.escape(needle) + r"\([^\n]*\{\n", mir, re.M)
    if not m:
        raise Unsupported("function not found in MIR: " + needle)
    end = mir.index("\n}\n", m.end())
    head = mir[m.start():m.end()]
    body = mir[m.end():end]
    blocks = {}
    for bm in re.finditer(r"^    (bb\d+)(?: \(cleanup\))?: \{\n(.*?)^    \}", body, re.M | re.S):
        lines = [l.strip() for l in bm.group(2).strip().split("\n") if l.strip()]
        blocks[bm.group(1)] = lines
    params = re.findall(r"(_\d+): ([^,)]+)", head.split("->")[0])
    return {"name": needle, "params": params, "blocks": blocks}


# ----------------------------------------------------------------------------- SMT helpers

def bv(v):
    return "(_ bv%d 64)" % (v % (1 << 64))


class Ctx:
    """One symbolic execution: collects declarations; paths are explored by DFS."""

    def __init__(self, w_bytes):
        self.w = w_bytes
        self.decls = []
        self.fresh_n = 0
        self.ops = None      # OpsContext fields: {0: min_accessed, 1: max_accessed} (smt terms)
        self.opwords = {}    # operand word k of the threaded code at ip: smt term
        self.cuts = set()    # (function, block) loop heads: a second arrival ends the path as a cut

    def opword(self, k):
        if k not in self.opwords:
            self.opwords[k] = self.fresh("opword%d" % k)
        return self.opwords[k]

    def fresh(self, name, sort="(_ BitVec 64)"):
        self.fresh_n += 1
        n = "%s_%d" % (name, self.fresh_n)
        self.decls.append("(declare-const %s %s)" % (n, sort))
        return n


class Path:
    def __init__(self, ctx, mem, cond=None, events=None):
        self.ctx = ctx
        self.mem = dict(mem)          # field index -> smt term
        self.cond = list(cond or [])  # list of Bool smt terms
        self.events = list(events or [])
        self.panics = None            # description if the path ends in a panic/abort

    def clone(self):
        p = Path(self.ctx, self.mem, self.cond, self.events)
        p.visits = dict(getattr(self, "visits", {}))
        return p


def is_bool(v):
    return isinstance(v, tuple) and v[0] == "bool"


def smt_of(v):
    if isinstance(v, tuple):
        if v[0] in ("bv", "bool", "ptr"):
            return v[1]
    raise Unsupported("value has no scalar SMT form: %r" % (v,))


BIN = {"Add": "bvadd", "Sub": "bvsub", "Mul": "bvmul", "BitAnd": "bvand", "BitOr": "bvor", "BitXor": "bvxor"}


def signed_of(ty):
    return ty.strip().startswith("isize") or ty.strip().startswith("i64")


class Exec:
    def __init__(self, mir, ctx, fns):
        self.mir = mir
        self.ctx = ctx
        self.fns = fns  # name -> parsed fn
        self.results = []  # finished paths: (Path, retval)
        self.local_types = {}

    # -- operands and places
    def read_place(self, place, env, path):
        place = place.strip()
        m = re.fullmatch(r"_\d+", place)
        if m:
            if place not in env:
                raise Unsupported("read of unassigned local " + place)
            return env[place]
        m = re.fullmatch(r"\(\(\*(_\d+)\)\.(\d+): [^)]*\)", place)
        if m:
            base = env.get(m.group(1))
            k = int(m.group(2))
            if base == ("ref_ops",) and k in (0, 1) and place.endswith(": isize)"):
                return ("bv", self.ctx.ops[k])
            if isinstance(base, tuple) and base[0] == "ipref" and k == 1 and place.endswith(": isize)"):
                # the `off` member of the OpCode union at ip + base[1]
                return ("bv", self.ctx.opword(base[1]))
            if base != ("ref_mem",):
                raise Unsupported("field projection through a non-Memory reference: " + place)
            kind = "ptr" if k == 0 else "bv"
            return (kind, path.mem[k])
        m = re.fullmatch(r"\((_\d+)\.(\d+): [^)]*\)", place)
        if m:
            t = env.get(m.group(1))
            if not (isinstance(t, tuple) and t[0] == "tuple"):
                raise Unsupported("tuple projection of a non-tuple: " + place)
            return t[1][int(m.group(2))]
        raise Unsupported("place form: " + place)

    def operand(self, op, env, path):
        op = op.strip()
        if op.startswith("copy ") or op.startswith("move "):
            return self.read_place(op[5:], env, path)
        m = re.fullmatch(r"const (-?\d+)_(usize|isize|u64|i64|u32|i32|u8)", op)
        if m:
            return ("bv", bv(int(m.group(1))))
        named = {"const isize::MIN": -(1 << 63), "const isize::MAX": (1 << 63) - 1, "const usize::MAX": (1 << 64) - 1, "const usize::MIN": 0,
                 "const i64::MIN": -(1 << 63), "const i64::MAX": (1 << 63) - 1, "const u64::MAX": (1 << 64) - 1}
        if op in named:
            return ("bv", bv(named[op]))
        if op == "const SAFE":
            return ("bool", "true" if getattr(self.ctx, "safe", True) else "false")   # which instantiation is analysed
        if op == "const <C as CellType>::ZERO":
            return ("cellzero",)
        if op == "const true":
            return ("bool", "true")
        if op == "const false":
            return ("bool", "false")
        raise Unsupported("operand form: " + op)

    def rvalue(self, rv, env, path, lhs_ty=None):
        rv = rv.strip()
        m = re.fullmatch(r"(\w+)\((.*)\)", rv)
        if m and m.group(1) in ("Lt", "Le", "Gt", "Ge", "Eq", "Ne", "Add", "Sub", "Mul", "Div", "BitAnd", "BitOr", "BitXor",
                                "AddWithOverflow", "SubWithOverflow", "MulWithOverflow", "Not", "Neg", "Offset"):
            opn = m.group(1)
            args = split_args(m.group(2))
            vals = [self.operand(a, env, path) for a in args]
            if opn == "Not":
                v = vals[0]
                return ("bool", "(not %s)" % v[1]) if is_bool(v) else ("bv", "(bvnot %s)" % smt_of(v))
            if opn == "Neg":
                return ("bv", "(bvneg %s)" % smt_of(vals[0]))
            a, b = smt_of(vals[0]), smt_of(vals[1])
            sgn = self.operand_signed(args[0], env)
            if opn in ("BitAnd", "BitOr", "BitXor") and is_bool(vals[0]) and is_bool(vals[1]):
                return ("bool", "(%s %s %s)" % ({"BitAnd": "and", "BitOr": "or", "BitXor": "xor"}[opn], a, b))
            if opn in BIN:
                return ("bv", "(%s %s %s)" % (BIN[opn], a, b))
            if opn == "Div":
                return ("bv", "(%s %s %s)" % ("bvsdiv" if sgn else "bvudiv", a, b))
            if opn in ("Lt", "Le", "Gt", "Ge"):
                o = {"Lt": "lt", "Le": "le", "Gt": "gt", "Ge": "ge"}[opn]
                return ("bool", "(bv%s%s %s %s)" % ("s" if sgn else "u", o, a, b))
            if opn == "Eq":
                return ("bool", "(= %s %s)" % (a, b))
            if opn == "Ne":
                return ("bool", "(not (= %s %s))" % (a, b))
            if opn in ("AddWithOverflow", "SubWithOverflow", "MulWithOverflow"):
                base = {"AddWithOverflow": "add", "SubWithOverflow": "sub", "MulWithOverflow": "mul"}[opn]
                res = "(bv%s %s %s)" % (base, a, b)
                if sgn:
                    ext = lambda x: "((_ sign_extend 64) %s)" % x
                else:
                    ext = lambda x: "((_ zero_extend 64) %s)" % x
                wide = "(bv%s %s %s)" % (base, ext(a), ext(b))
                ov = "(not (= %s %s))" % (wide, ext(res))
                return ("tuple", [("bv", res), ("bool", ov)])
            if opn == "Offset":
                return ("ptr", "(bvadd %s (bvmul %s %s))" % (a, b, bv(self.ctx.w)))
        m = re.fullmatch(r"(.*) as ([^()]+) \((\w+)\)", rv)
        if m:
            v = self.operand(m.group(1), env, path)
            if m.group(3) in ("IntToInt", "PtrToPtr", "PointerExposeProvenance", "PointerWithExposedProvenance", "Transmute"):
                kind = "ptr" if m.group(2).strip().startswith("*") else "bv"
                return (kind, smt_of(v))
            raise Unsupported("cast kind " + m.group(3))
        if rv.startswith("(") and rv.endswith(")") and not rv.startswith("(("):
            parts = split_args(rv[1:-1])
            if len(parts) >= 2 and all(p.strip().startswith(("copy ", "move ", "const ")) for p in parts):
                return ("tuple", [self.operand(p, env, path) for p in parts])
        if rv.startswith("&mut (*") or rv.startswith("&(*"):
            m = re.fullmatch(r"&(?:mut )?\(\*(_\d+)\)", rv)
            if m and env.get(m.group(1)) == ("ref_mem",):
                return ("ref_mem",)
            if m and isinstance(env.get(m.group(1)), tuple) and env[m.group(1)][0] == "ptr":
                return ("cellref", env[m.group(1)][1])
        m = re.fullmatch(r"&(?:mut )?\(\(\(\*(_\d+)\)\.2: runtime::Context<'_, C>\)\.0: runtime::Memory<C>\)", rv)
        if m and env.get(m.group(1)) == ("ref_ops",):
            return ("ref_mem",)
        m = re.fullmatch(r"&(_\d+)", rv)
        if m and m.group(1) in env:
            return ("ref", env[m.group(1)])
        return self.operand(rv, env, path)

    def operand_signed(self, op, env):
        op = op.strip()
        m = re.search(r"_(isize|i64|i32)$", op)
        if m or op.startswith("const isize::") or op.startswith("const i64::"):
            return True
        m = re.fullmatch(r"(?:copy|move) (_\d+)", op)
        if m:
            return signed_of(self.local_types.get(m.group(1), ""))
        m = re.fullmatch(r"(?:copy|move) \(.*: ([^)]+)\)", op)
        if m:
            return signed_of(m.group(1))
        return False

    # -- calls
    def call(self, callee, args, env, path):
        """returns list of (value, path) continuations, or a panic marker"""
        a = [self.operand(x, env, path) for x in args]
        c = callee
        if re.search(r"<impl isize>::wrapping_add$|<impl usize>::wrapping_add$|<impl usize>::wrapping_add_signed$", c):
            return [(("bv", "(bvadd %s %s)" % (smt_of(a[0]), smt_of(a[1]))), path)]
        if re.search(r"<impl isize>::wrapping_sub$|<impl usize>::wrapping_sub$", c):
            return [(("bv", "(bvsub %s %s)" % (smt_of(a[0]), smt_of(a[1]))), path)]
        if c.endswith("<impl usize>::saturating_add_signed"):
            x, y = smt_of(a[0]), smt_of(a[1])
            sm = "(bvadd %s %s)" % (x, y)
            up = "(ite (bvult %s %s) %s %s)" % (sm, x, bv((1 << 64) - 1), sm)      # y >= 0: wrapped => MAX
            dn = "(ite (bvugt %s %s) %s %s)" % (sm, x, bv(0), sm)                   # y < 0: wrapped => 0
            return [(("bv", "(ite (bvsge %s %s) %s %s)" % (y, bv(0), up, dn)), path)]
        if c.endswith("<impl usize>::saturating_add"):
            x, y = smt_of(a[0]), smt_of(a[1])
            sm = "(bvadd %s %s)" % (x, y)
            return [(("bv", "(ite (bvult %s %s) %s %s)" % (sm, x, bv((1 << 64) - 1), sm)), path)]
        if c.endswith("<impl usize>::saturating_sub"):
            x, y = smt_of(a[0]), smt_of(a[1])
            return [(("bv", "(ite (bvult %s %s) %s (bvsub %s %s))" % (x, y, bv(0), x, y)), path)]
        if c.endswith("<impl isize>::unsigned_abs"):
            x = smt_of(a[0])
            return [(("bv", "(ite (bvslt %s %s) (bvneg %s) %s)" % (x, bv(0), x, x)), path)]
        if c.endswith("<usize as Ord>::max") or c.endswith("std::cmp::Ord::max") or c.endswith("<usize as std::cmp::Ord>::max"):
            x, y = smt_of(a[0]), smt_of(a[1])
            return [(("bv", "(ite (bvuge %s %s) %s %s)" % (x, y, x, y)), path)]
        if c.endswith("<usize as Ord>::min") or c.endswith("<usize as std::cmp::Ord>::min"):
            x, y = smt_of(a[0]), smt_of(a[1])
            return [(("bv", "(ite (bvule %s %s) %s %s)" % (x, y, x, y)), path)]
        if re.search(r"mut_ptr::<impl \*mut C>::(wrapping_add|add)$", c):
            return [(("ptr", "(bvadd %s (bvmul %s %s))" % (smt_of(a[0]), smt_of(a[1]), bv(self.ctx.w))), path)]
        if re.search(r"(mut_ptr::<impl \*mut C>|const_ptr::<impl \*const C>)::(wrapping_sub|sub)$", c):
            return [(("ptr", "(bvsub %s (bvmul %s %s))" % (smt_of(a[0]), smt_of(a[1]), bv(self.ctx.w))), path)]
        if re.search(r"const_ptr::<impl \*const C>::(wrapping_add|add|wrapping_offset|offset)$", c):
            return [(("ptr", "(bvadd %s (bvmul %s %s))" % (smt_of(a[0]), smt_of(a[1]), bv(self.ctx.w))), path)]
        if re.search(r"mut_ptr::<impl \*mut C>::(wrapping_offset|offset)$", c):
            return [(("ptr", "(bvadd %s (bvmul %s %s))" % (smt_of(a[0]), smt_of(a[1]), bv(self.ctx.w))), path)]
        if re.search(r"const_ptr::<impl \*const OpCode<C>>::add$", c):
            base = a[0]
            k0 = base[1] if isinstance(base, tuple) and base[0] == "ipref" else None
            m2 = re.fullmatch(r"\(_ bv(\d+) 64\)", smt_of(a[1]))
            if k0 is None or not m2:
                raise Unsupported("instruction pointer arithmetic: " + c)
            return [(("ipref", k0 + int(m2.group(1))), path)]
        if c.endswith("<C as PartialEq>::ne") or c.endswith("<C as PartialEq>::eq"):
            x, y = a[0], a[1]
            if not (x[0] == "cellref" and y == ("ref", ("cellzero",))):
                raise Unsupported("cell comparison other than *ptr != ZERO")
            p2 = path.clone()
            # the cell is read through the pointer: record where, and in which block
            p2.events.append(("read", x[1], p2.mem[0], p2.mem[1]))
            b = self.ctx.fresh("cell_nonzero", "Bool")
            return [(("bool", b if c.endswith("ne") else "(not %s)" % b), p2)]
        if re.fullmatch(r"noop::<C>", c):
            p2 = path.clone()
            p2.events.append(("dispatch", smt_of(a[1]), a[2]))
            return [(("dispatched",), p2)]
        if c.endswith("mut_ptr::<impl *mut C>::is_null"):
            return [(("bool", "(= %s %s)" % (smt_of(a[0]), bv(0))), path)]
        if c.endswith("size_of::<C>"):
            return [(("bv", bv(self.ctx.w)), path)]
        if c.startswith("Layout::array::<C>"):
            n = smt_of(a[0])
            # Err when the byte size exceeds isize::MAX
            ok = "(bvule %s %s)" % (n, bv(((1 << 63) - 1) // self.ctx.w))
            return [(("result_layout", n, ok), path)]
        if c.startswith("Result::<Layout, LayoutError>::unwrap"):
            r = a[0]
            if r[0] != "result_layout":
                raise Unsupported("unwrap of a non-layout result")
            okp = path.clone()
            okp.cond.append(r[2])
            badp = path.clone()
            badp.cond.append("(not %s)" % r[2])
            badp.panics = "Layout::array overflow (clean panic)"
            self.results.append((badp, None))
            return [(("layout", r[1]), okp)]
        if c.endswith("alloc::alloc_zeroed"):
            lay = a[0]
            base = self.ctx.fresh("newbuf")
            p2 = path.clone()
            p2.events.append(("alloc", lay[1], base))
            # allocator contract: non-null (failure is C17), aligned, block does not wrap
            p2.cond.append("(not (= %s %s))" % (base, bv(0)))
            p2.cond.append("(= (bvurem %s %s) %s)" % (base, bv(self.ctx.w), bv(0)))
            p2.cond.append("(bvule %s (bvsub %s (bvmul %s %s)))" % (base, bv((1 << 63)), lay[1], bv(self.ctx.w)))
            return [(("ptr", base), p2)]
        if c.endswith("copy_to_nonoverlapping"):
            p2 = path.clone()
            p2.events.append(("copy", smt_of(a[0]), smt_of(a[1]), smt_of(a[2])))
            return [(("unit",), p2)]
        if c.endswith("alloc::dealloc"):
            p2 = path.clone()
            p2.events.append(("dealloc", smt_of(a[0]), a[1][1]))
            return [(("unit",), p2)]
        if c.startswith("handle_alloc_error"):
            p2 = path.clone()
            p2.panics = "handle_alloc_error (clean abort)"
            self.results.append((p2, None))
            return []
        # calls between translated functions
        for name, fn in self.fns.items():
            if c.endswith("::" + name) or c.endswith(">::" + name) or c == name + "::<C>":
                sub = Exec(self.mir, self.ctx, self.fns)
                return sub.run_fn(fn, a, path, collect_panics_into=self.results)
        raise Unsupported("call to " + c)

    # -- running
    def run_fn(self, fn, args, path, collect_panics_into=None):
        self.ctx.invocations = getattr(self.ctx, "invocations", 0) + 1
        self.invocation = self.ctx.invocations
        env = {}
        for (pname, pty), v in zip(fn["params"], args):
            env[pname] = v
            self.local_types[pname] = pty
        # local declarations carry types (for signedness)
        body_text = "\n".join("\n".join(b) for b in fn["blocks"].values())
        for m in re.finditer(r"let (?:mut )?(_\d+): ([^;]+);", find_fn_text(self.mir, fn["name"])):
            self.local_types[m.group(1)] = m.group(2)
        out = []
        self._exec_block(fn, "bb0", env, path, out, 0)
        if collect_panics_into is not None:
            collect_panics_into.extend(self.results)
        return out

    def _exec_block(self, fn, bb, env, path, out, depth):
        if depth > 200:
            raise Unsupported("block depth (loop?) in " + fn["name"])
        if self.ctx.cuts:
            # loop cut: arriving a second time at a block of the same invocation ends the path
            # (one iteration of the loop has been executed: an inductive step)
            key = (getattr(self, "invocation", 0), fn["name"], bb)
            seen = getattr(path, "visits", {})
            if key in seen:
                if not any(fn["name"] == c[0] for c in self.ctx.cuts):
                    raise Unsupported("loop in " + fn["name"])
                out.append((("cut", dict(env)), path))
                return
            path.visits = dict(seen)
            path.visits[key] = 1
        lines = fn["blocks"][bb]
        env = dict(env)
        for line in lines[:-1]:
            self._stmt(line, env, path)
        term = lines[-1]
        if term == "return;":
            out.append((env.get("_0", ("unit",)), path))
            return
        m = re.fullmatch(r"goto -> (bb\d+);", term)
        if m:
            return self._exec_block(fn, m.group(1), env, path, out, depth + 1)
        m = re.fullmatch(r"switchInt\((.*)\) -> \[(.*)\];", term)
        if m:
            v = self.operand(m.group(1), env, path)
            targets = [t.strip() for t in m.group(2).split(",")]
            taken_conds = []
            for t in targets:
                k, dest = t.split(": ")
                if k == "otherwise":
                    cond = "(and %s)" % " ".join(["true"] + ["(not %s)" % c for c in taken_conds])
                else:
                    if is_bool(v):
                        cond = "(not %s)" % v[1] if k == "0" else v[1]
                    else:
                        cond = "(= %s %s)" % (smt_of(v), bv(int(k)))
                    taken_conds.append(cond)
                if cond in ("(not true)", "false"):
                    continue
                if cond == "(and true (not (not false)))":
                    continue
                p2 = path.clone()
                p2.cond.append(cond)
                self._exec_block(fn, dest, env, p2, out, depth + 1)
            return
        m = re.fullmatch(r"assert\((!?)(.*?), \"(.*?)\".*\) -> \[success: (bb\d+), unwind continue\];", term)
        if m:
            v = self.operand(m.group(2), env, path)
            good = "(not %s)" % v[1] if m.group(1) == "!" else v[1]
            bad = path.clone()
            bad.cond.append("(not %s)" % good)
            bad.panics = "overflow/arith assert: " + m.group(3)
            self.results.append((bad, None))
            p2 = path.clone()
            p2.cond.append(good)
            return self._exec_block(fn, m.group(4), env, p2, out, depth + 1)
        m = re.fullmatch(r"(_\d+) = (.*?)\((.*)\) -> \[return: (bb\d+), unwind continue\];", term)
        if m:
            conts = self.call(m.group(2).strip(), split_args(m.group(3)), env, path)
            for val, p2 in conts:
                e2 = dict(env)
                e2[m.group(1)] = val
                self._exec_block(fn, m.group(4), e2, p2, out, depth + 1)
            return
        m = re.fullmatch(r"(_\d+) = (.*?)\((.*)\) -> unwind continue;", term)
        if m:
            self.call(m.group(2).strip(), split_args(m.group(3)), env, path)
            return
        raise Unsupported("terminator: " + term)

    def _stmt(self, line, env, path):
        if line.startswith(("StorageLive", "StorageDead", "nop", "FakeRead", "PlaceMention", "Retag", "AscribeUserType", "Coverage")):
            return
        m = re.fullmatch(r"\(\(\*(_\d+)\)\.(\d+): [^)]*\) = (.*);", line)
        if m:
            if env.get(m.group(1)) != ("ref_mem",):
                raise Unsupported("store through a non-Memory reference: " + line)
            path.mem[int(m.group(2))] = smt_of(self.rvalue(m.group(3), env, path))
            return
        m = re.fullmatch(r"(_\d+) = (.*);", line)
        if m:
            env[m.group(1)] = self.rvalue(m.group(2), env, path)
            return
        raise Unsupported("statement: " + line)


_FN_TEXT = {}


def find_fn_text(mir, needle):
    if needle not in _FN_TEXT:
        m = re.search(r"^fn [^\n]*" + re.escape(needle) + r"\([^\n]*\{\n", mir, re.M)
        end = mir.index("\n}\n", m.end())
        _FN_TEXT[needle] = mir[m.start():end]
    return _FN_TEXT[needle]


def split_args(s):
    out, depth, cur = [], 0, ""
    for ch in s:
        if ch in "([<":
            depth += 1
        elif ch in ")]>":
            depth -= 1
        if ch == "," and depth == 0:
            out.append(cur.strip())
            cur = ""
        else:
            cur += ch
    if cur.strip():
        out.append(cur.strip())
    return out


# ----------------------------------------------------------------------------- solving

def solve(script, extra_timeout=20):
    """returns (answer, solver, seconds, model_text)"""
    results = []
    for name, cmd in (("cvc5 --solve-bv-as-int=sum", ["cvc5", "--lang", "smt2", "--produce-models", "--solve-bv-as-int=sum", "--tlimit=%d" % (extra_timeout * 1000)]),
                      ("cvc5", ["cvc5", "--lang", "smt2", "--produce-models", "--tlimit=%d" % (extra_timeout * 1000)]),
                      ("z3", ["/usr/bin/z3", "-in", "-T:%d" % extra_timeout])):
        t0 = time.time()
        try:
            p = subprocess.run(cmd, input=script, capture_output=True, text=True, timeout=extra_timeout + 10)
            out = p.stdout.strip()
        except subprocess.TimeoutExpired:
            out = "timeout"
        dt = time.time() - t0
        first = out.split("\n")[0].strip() if out else ""
        if "(error" in out and first not in ("sat", "unsat"):
            first = "error"
        results.append((first, name, dt, out))
        if first in ("sat", "unsat"):
            return first, name, dt, out, results
    return "unknown", "none", sum(r[2] for r in results), "", results


def main():
    tier = sys.argv[1] if len(sys.argv) > 1 else "quick"
    # optional second argument: which lemma families to run ("checked" = L1, L4, L5; "unchecked" = L6)
    families = sys.argv[2] if len(sys.argv) > 2 else "checked"
    t0 = time.time()
    out = {"lemmas": [], "functions_encoded": [], "inconclusive": [], "violations": []}
    try:
        mir = dump_mir()
        fns = {}
        for name in ("make_accessible", "check", "check_ptr", "mov", "set_current_ptr", "current_ptr"):
            fns[name] = find_fn(mir, ">::" + name)
            fns[name]["name"] = ">::" + name
        out["functions_encoded"] = ["hpbf::runtime::Memory::<C>::" + n + " (from MIR)" for n in fns]
        out["mir_blocks"] = {n: len(f["blocks"]) for n, f in fns.items()}
        check_layout_assumptions()
        for name in ("checkl", "checkr", "movl", "movr", "scanl", "scanr"):
            fns[name] = find_fn(mir, name)
            fns[name]["name"] = name
            out["functions_encoded"].append("hpbf::exec::bcint::ops::" + name + "::<C" + (", SAFE = true>" if name[0] in "ms" else ">") + " (from MIR)")
            out["mir_blocks"][name] = len(fns[name]["blocks"])
        widths = [1, 2, 4, 8]
        for wb in widths:
            if "unchecked" in families:
                unchecked_ops_lemmas_for_width(mir, fns, wb, out, tier)
            if "checked" in families.replace("unchecked", ""):
                lemmas_for_width(mir, fns, wb, out, tier)
                ops_lemmas_for_width(mir, fns, wb, out, tier)
        finish(out)
    except Unsupported as e:
        out["inconclusive"].append("MIR construct outside the translator: %s" % e)
    out["wall_s"] = round(time.time() - t0, 1)
    print(json.dumps(out))
    if out["violations"]:
        sys.exit(1)
    if out["inconclusive"]:
        sys.exit(2)
    sys.exit(0)


def check_layout_assumptions():
    """The translator reads MIR field indices; tie them to the names in the current source."""
    src = open(os.path.join(REPO, "src/exec/bcint/mod.rs")).read()
    m = re.search(r"pub struct OpsContext<[^>]*>\s*\{([^}]*)\}", src)
    fields = re.findall(r"^\s*(?:pub(?:\([^)]*\))?\s+)?(\w+)\s*:", m.group(1), re.M) if m else []
    if fields[:3] != ["min_accessed", "max_accessed", "context"]:
        raise Unsupported("OpsContext fields are not (min_accessed, max_accessed, context, ..): %r" % fields)
    src = open(os.path.join(REPO, "src/runtime.rs")).read()
    m = re.search(r"pub struct Context<[^>]*>\s*\{([^}]*)\}", src)
    fields = re.findall(r"^\s*(?:pub(?:\([^)]*\))?\s+)?(\w+)\s*:", m.group(1), re.M) if m else []
    if fields[:1] != ["memory"]:
        raise Unsupported("Context's first field is not `memory`: %r" % fields)
    m = re.search(r"pub struct Memory<[^>]*>\s*\{([^}]*)\}", src)
    fields = re.findall(r"^\s*(?:pub(?:\([^)]*\))?\s+)?(\w+)\s*:", m.group(1), re.M) if m else []
    if fields[:3] != ["buffer", "size", "offset"]:
        raise Unsupported("Memory fields are not (buffer, size, offset): %r" % fields)
    src = open(os.path.join(REPO, "src/exec/bcint/ops.rs")).read()
    m = re.search(r"pub union OpCode<[^>]*>\s*\{([^}]*)\}", src)
    fields = re.findall(r"^\s*(?:pub(?:\([^)]*\))?\s+)?(\w+)\s*:", m.group(1), re.M) if m else []
    if len(fields) < 2 or fields[1] != "off":
        raise Unsupported("OpCode union member 1 is not `off`: %r" % fields)


def pre_state(ctx):
    buf, size, off = ctx.fresh("buffer"), ctx.fresh("size"), ctx.fresh("offset")
    w = ctx.w
    pre = [
        # representation invariant of a reachable Memory: the allocation [buffer, buffer+size*w) is a real block
        "(bvult (bvmul %s %s) %s)" % (size, bv(w), bv(1 << 60)),
        "(bvult %s %s)" % (size, bv(1 << 60)),
        "(bvule %s (bvsub %s (bvmul %s %s)))" % (buf, bv(1 << 63), size, bv(w)),
        "(= (bvurem %s %s) %s)" % (buf, bv(w), bv(0)),
        "(=> (= %s %s) (= %s %s))" % (size, bv(0), buf, bv(0)),
        "(=> (not (= %s %s)) (not (= %s %s)))" % (size, bv(0), buf, bv(0)),
        # the logical pointer is within +-2^58 cells of the block: its byte distance from the
        # buffer (at most 2^61) does not wrap; nothing reachable moves further (every step of a
        # scan or move probes and grows the tape first)
        "(and (bvsge %s %s) (bvsle %s %s))" % (off, bv(-(1 << 58)), off, bv(1 << 58)),
    ]
    return {0: buf, 1: size, 2: off}, pre


def lemmas_for_width(mir, fns, wb, out, tier):
    # ---- L1: make_accessible(s, e)
    ctx = Ctx(wb)
    mem, pre = pre_state(ctx)
    s, e = ctx.fresh("start"), ctx.fresh("end")
    pre += ["(bvslt %s %s)" % (s, e), "(bvsge %s %s)" % (s, bv(-(1 << 40))), "(bvsle %s %s)" % (e, bv(1 << 40))]
    ex = Exec(mir, ctx, fns)
    p0 = Path(ctx, mem, pre)
    conts = ex.run_fn(fns["make_accessible"], [("ref_mem",), ("bv", s), ("bv", e)], p0)
    n_paths = len(conts) + len(ex.results)
    # (a) no overflow assert is reachable
    for (p, _) in ex.results:
        if p.panics and p.panics.startswith("overflow/arith"):
            obligation(out, ctx, wb, "L1a make_accessible: `%s` cannot fail" % p.panics[:60], p.cond, [], mem, (s, e))
    # (b,c) post-conditions on every returning path
    for (_, p) in conts:
        buf2, size2, off2 = p.mem[0], p.mem[1], p.mem[2]
        goals = []
        # requested range accessible afterwards: check(i) <=> (offset'+i) <u size'
        goals.append(("requested range accessible: start", "(bvult (bvadd %s %s) %s)" % (off2, s, size2)))
        goals.append(("requested range accessible: end-1", "(bvult (bvadd %s (bvsub %s %s)) %s)" % (off2, e, bv(1), size2)))
        copies = [ev for ev in p.events if ev[0] == "copy"]
        allocs = [ev for ev in p.events if ev[0] == "alloc"]
        if allocs:
            newbuf = allocs[0][2]
            goals.append(("new block becomes the tape", "(and (= %s %s) (= %s %s))" % (buf2, newbuf, size2, allocs[0][1])))
            goals.append(("tape never shrinks", "(bvuge %s %s)" % (size2, mem[1])))
            added = "(bvsub %s %s)" % (off2, mem[2])
            goals.append(("offset' = offset + added_below, added_below + size <= new_size", "(and (bvule %s %s) (bvule (bvadd %s %s) %s))" % (added, size2, added, mem[1], size2)))
            for cp in copies:
                goals.append(("copy: source is the old block, destination new_buffer + added_below, count = size",
                              "(and (= %s %s) (= %s (bvadd %s (bvmul %s %s))) (= %s %s))" % (cp[1], mem[0], cp[2], newbuf, added, bv(wb), cp[3], mem[1])))
            goals.append(("old contents are copied iff the old tape was non-empty", "(= %s (not (= %s %s)))" % ("true" if copies else "false", mem[1], bv(0))))
        else:
            goals.append(("no reallocation: state unchanged", "(and (= %s %s) (= %s %s) (= %s %s))" % (buf2, mem[0], size2, mem[1], off2, mem[2])))
        for name, g in goals:
            obligation(out, ctx, wb, "L1 make_accessible: " + name, p.cond, ["(not %s)" % g], mem, (s, e))
    # ---- L4: check / check_ptr / mov / current_ptr / set_current_ptr agree with the logical-array reading
    ctx = Ctx(wb)
    mem, pre = pre_state(ctx)
    i = ctx.fresh("idx")
    pre2 = pre + ["(and (bvsge %s %s) (bvsle %s %s))" % (i, bv(-(1 << 40)), i, bv(1 << 40))]
    ex = Exec(mir, ctx, fns)
    for (rv, p) in ex.run_fn(fns["check"], [("ref_mem",), ("bv", i)], Path(ctx, mem, pre2)):
        # check(i) is true exactly when logical cell offset+i lies in [0, size)
        logical = "(bvadd %s %s)" % (mem[2], i)
        spec = "(and (bvsge %s %s) (bvslt %s %s))" % (logical, bv(0), logical, mem[1])
        obligation(out, ctx, wb, "L4 check(i) <=> 0 <= offset+i < size", p.cond, ["(not (= %s %s))" % (rv[1], spec)], mem, (i, i))
    # pointer round trip: set_current_ptr(current_ptr() + k*w) moves the offset by k
    ctx = Ctx(wb)
    mem, pre = pre_state(ctx)
    k = ctx.fresh("k")
    pre3 = pre + ["(and (bvsge %s %s) (bvsle %s %s))" % (k, bv(-(1 << 40)), k, bv(1 << 40))]
    ex = Exec(mir, ctx, fns)
    for (ptr, p) in ex.run_fn(fns["current_ptr"], [("ref_mem",)], Path(ctx, mem, pre3)):
        moved = ("ptr", "(bvadd %s (bvmul %s %s))" % (ptr[1], k, bv(wb)))
        ex2 = Exec(mir, ctx, fns)
        for (_, p2) in ex2.run_fn(fns["set_current_ptr"], [("ref_mem",), moved], p):
            obligation(out, ctx, wb, "L4 set_current_ptr(current_ptr() + k) moves the logical pointer by k", p2.cond, ["(not (= %s (bvadd %s %s)))" % (p2.mem[2], mem[2], k)], mem, (k, k))
        ex3 = Exec(mir, ctx, fns)
        for (rv, p3) in ex3.run_fn(fns["check_ptr"], [("ref_mem",), moved], p):
            logical = "(bvadd %s %s)" % (mem[2], k)
            spec = "(and (bvsge %s %s) (bvslt %s %s))" % (logical, bv(0), logical, mem[1])
            obligation(out, ctx, wb, "L4 check_ptr(current_ptr() + k) <=> cell offset+k is inside the block", p3.cond, ["(not (= %s %s))" % (rv[1], spec)], mem, (k, k))
    out.setdefault("paths", {})["w%d" % wb] = n_paths


def ops_lemmas_for_width(mir, fns, wb, out, tier):
    """L5: the pointer-moving ops of the bytecode interpreter (checked instantiation) keep the
    access window inside the block and denote the right logical cell, for every geometry."""
    B = 1 << 40
    for name in ("movl", "movr", "scanl", "scanr"):
        left = name.endswith("l")
        scan = name.startswith("scan")
        ctx = Ctx(wb)
        mem, pre = pre_state(ctx)
        mn, mx, j0 = ctx.fresh("min_accessed"), ctx.fresh("max_accessed"), ctx.fresh("ptr_cell")
        ctx.ops = {0: mn, 1: mx}
        w = bv(wb)
        m0 = "(bvadd %s (bvmul %s %s))" % (mem[0], j0, w)
        shift = ctx.opword(2 if scan else 1)
        pre = pre + [
            "(bvsle %s %s)" % (mn, bv(0)), "(bvsge %s %s)" % (mx, bv(0)), "(bvsge %s %s)" % (mn, bv(-B)), "(bvsle %s %s)" % (mx, bv(B)),
            # the whole window around the pointer is inside the block (the invariant the ops maintain)
            "(bvsge (bvadd %s %s) %s)" % (j0, mn, bv(0)), "(bvslt (bvadd %s %s) %s)" % (j0, mx, mem[1]), "(bvsge %s %s)" % (j0, bv(0)), "(bvslt %s %s)" % (j0, mem[1]),
            # the op the code generator of the interpreter picks for this sign of the shift
            ("(and (bvslt %s %s) (bvsge %s %s))" % (shift, bv(0), shift, bv(-B))) if left else ("(and (bvsge %s %s) (bvsle %s %s))" % (shift, bv(0), shift, bv(B))),
        ]
        if scan:
            cond = ctx.opword(1)
            pre.append("(and (bvsle %s %s) (bvsle %s %s))" % (mn, cond, cond, mx))   # C11: every operand is inside the window
            ctx.cuts = {(name, "loop")}
        ex = Exec(mir, ctx, fns)
        conts = ex.run_fn(fns[name], [("ref_ops",), ("ptr", m0), ("ipref", 0), ("cellzero",), ("cellzero",)], Path(ctx, mem, pre))
        args = (j0, shift)
        for (p, _) in ex.results:
            if p.panics and p.panics.startswith("overflow/arith"):
                obligation(out, ctx, wb, "L5a %s: `%s` cannot fail" % (name, p.panics[:60]), p.cond, [], mem, args)
        n_cut = n_disp = 0
        for (rv, p) in conts:
            # every cell read happens inside the block owned at that moment
            for ev in p.events:
                if ev[0] == "read":
                    g = "(and (bvule %s %s) (bvult %s (bvadd %s (bvmul %s %s))))" % (ev[2], ev[1], ev[1], ev[2], ev[3], w)
                    obligation(out, ctx, wb, "L5 %s: the loop condition reads a cell inside the block" % name, p.cond, ["(not %s)" % g], mem, args)
            if rv[0] == "cut":
                n_cut += 1
                r = smt_of(rv[1]["_2"])
                moved = True
            elif rv == ("dispatched",):
                n_disp += 1
                d = [ev for ev in p.events if ev[0] == "dispatch"][-1]
                r = d[1]
                want_ip = 3 if scan else 2
                if d[2] != ("ipref", want_ip):
                    out["violations"].append({"lemma": "L5 %s: the next instruction is at ip + %d" % (name, want_ip), "cell_bytes": wb, "answer": "sat", "solver": "structural", "seconds": 0, "model": repr(d[2])})
                moved = not scan
            else:
                raise Unsupported("unexpected end of %s: %r" % (name, rv))
            buf2, size2 = p.mem[0], p.mem[1]
            lo = "(bvadd %s (bvmul %s %s))" % (r, mn, w)
            hi = "(bvadd %s (bvmul %s %s))" % (r, mx, w)
            end2 = "(bvadd %s (bvmul %s %s))" % (buf2, size2, w)
            inside = "(and (bvule %s %s) (bvult %s %s) (bvule %s %s) (bvult %s %s))" % (buf2, lo, lo, end2, buf2, hi, hi, end2)
            obligation(out, ctx, wb, "L5 %s: the whole access window around the new pointer is inside the (new) block" % name, p.cond, ["(not %s)" % inside], mem, args)
            allocs = [ev for ev in p.events if ev[0] == "alloc"]
            copies = [ev for ev in p.events if ev[0] == "copy"]
            target = "(bvadd %s (bvmul %s %s))" % (m0, shift, w) if moved else m0
            if allocs:
                if len(copies) != 1:
                    goal = "false"
                else:
                    # same distance from the copied old block as before from the old buffer
                    goal = "(= (bvsub %s %s) (bvsub %s %s))" % (r, copies[0][2], target, mem[0])
            else:
                goal = "(and (= %s %s) (= %s %s) (= %s %s))" % (r, target, buf2, mem[0], size2, mem[1])
            obligation(out, ctx, wb, "L5 %s: the new pointer denotes the %s logical cell (%s)" % (name, "moved" if moved else "same", "after a reallocation" if allocs else "no reallocation"), p.cond, ["(not %s)" % goal], mem, args)
        # vacuity witnesses: the shortest path with a reallocation and the shortest without must be feasible
        for want_alloc in (True, False):
            cands = [p for (rv, p) in conts if (rv[0] == "cut" or not scan) and bool([e for e in p.events if e[0] == "alloc"]) == want_alloc]
            if not cands:
                raise Unsupported("%s: no path %s a reallocation" % (name, "with" if want_alloc else "without"))
            found = False
            for p in sorted(cands, key=lambda p: len(p.cond)):
                obligation(out, ctx, wb, "W %s: a path %s reallocation is feasible [%d conds]" % (name, "with" if want_alloc else "without", len(p.cond)), p.cond, [], mem, args, expect="sat-any:%s:%d:%s" % (name, wb, want_alloc))
        if (scan and (n_cut == 0 or n_disp == 0)) or (not scan and n_disp == 0):
            raise Unsupported("%s: expected paths missing (cuts %d, dispatches %d)" % (name, n_cut, n_disp))
        out.setdefault("ops_paths", {})["%s/w%d" % (name, wb)] = {"returning": len(conts), "loop_cuts": n_cut, "panic_paths": len(ex.results)}


def unchecked_ops_lemmas_for_width(mir, fns, wb, out, tier):
    """L6: the unchecked instantiation (SAFE = false, static mode) of movl/movr/scanl/scanr is plain
    pointer arithmetic: the move adds shift cells, a scan iteration reads the cell at cond and adds
    shift cells, nothing touches the Memory state, and the next instruction is at ip + 2 / ip + 3."""
    B = 1 << 40
    for name in ("movl", "movr", "scanl", "scanr"):
        scan = name.startswith("scan")
        ctx = Ctx(wb)
        ctx.safe = False
        mem, pre = pre_state(ctx)
        mn, mx, m0 = ctx.fresh("min_accessed"), ctx.fresh("max_accessed"), ctx.fresh("mem_ptr")
        ctx.ops = {0: mn, 1: mx}
        w = bv(wb)
        shift = ctx.opword(2 if scan else 1)
        # the sign for which the interpreter's code generator selects this op
        left = name.endswith("l")
        pre = pre + [("(and (bvslt %s %s) (bvsge %s %s))" % (shift, bv(0), shift, bv(-B))) if left else ("(and (bvsge %s %s) (bvsle %s %s))" % (shift, bv(0), shift, bv(B)))]
        cond = None
        if scan:
            cond = ctx.opword(1)
            pre.append("(and (bvsge %s %s) (bvsle %s %s))" % (cond, bv(-B), cond, bv(B)))
            ctx.cuts = {(name, "loop")}
        ex = Exec(mir, ctx, fns)
        conts = ex.run_fn(fns[name], [("ref_ops",), ("ptr", m0), ("ipref", 0), ("cellzero",), ("cellzero",)], Path(ctx, mem, pre))
        args = (m0, shift)
        n = 0
        for (rv, p) in conts:
            for ev in p.events:
                if ev[0] == "read":
                    want = "(bvadd %s (bvmul %s %s))" % (m0, cond, w)
                    obligation(out, ctx, wb, "L6 %s (unchecked): the loop condition reads the cell at cond" % name, p.cond, ["(not (= %s %s))" % (ev[1], want)], mem, args)
                if ev[0] in ("alloc", "copy", "dealloc"):
                    out["violations"].append({"lemma": "L6 %s (unchecked): no allocator traffic" % name, "cell_bytes": wb, "answer": "sat", "solver": "structural", "seconds": 0, "model": repr(ev)})
            if rv[0] == "cut":
                r = smt_of(rv[1]["_2"])
                target = "(bvadd %s (bvmul %s %s))" % (m0, shift, w)
            elif rv == ("dispatched",):
                d = [ev for ev in p.events if ev[0] == "dispatch"][-1]
                r = d[1]
                target = m0 if scan else "(bvadd %s (bvmul %s %s))" % (m0, shift, w)
                want_ip = 3 if scan else 2
                if d[2] != ("ipref", want_ip):
                    out["violations"].append({"lemma": "L6 %s (unchecked): the next instruction is at ip + %d" % (name, want_ip), "cell_bytes": wb, "answer": "sat", "solver": "structural", "seconds": 0, "model": repr(d[2])})
            else:
                raise Unsupported("unexpected end of %s: %r" % (name, rv))
            n += 1
            same = "(and (= %s %s) (= %s %s) (= %s %s))" % (p.mem[0], mem[0], p.mem[1], mem[1], p.mem[2], mem[2])
            obligation(out, ctx, wb, "L6 %s (unchecked): the pointer moves by exactly shift cells per step and the tape state is untouched" % name, p.cond, ["(not (and (= %s %s) %s))" % (r, target, same)], mem, args)
            obligation(out, ctx, wb, "W %s (unchecked): path feasible" % name, p.cond, [], mem, args, expect="sat-any:%s:%d:unchecked" % (name, wb))
        if n < (2 if scan else 1):
            raise Unsupported("%s (unchecked): expected paths missing" % name)
        out.setdefault("ops_paths", {})["%s/unchecked/w%d" % (name, wb)] = {"returning": len(conts), "panic_paths": len(ex.results)}


_PENDING = []
_POOL = None


def obligation(out, ctx, wb, name, cond, negated_goal, mem, args, expect="unsat"):
    """Queue one query (decided in parallel by finish()).  expect="sat" marks a vacuity witness:
    the path condition itself must be satisfiable."""
    global _POOL
    if _POOL is None:
        import concurrent.futures
        _POOL = concurrent.futures.ThreadPoolExecutor(max_workers=int(os.environ.get("VERIF_THREADS", "8")))
    decls = "\n".join(ctx.decls)
    script = "(set-logic ALL)\n" + decls + "\n"
    for c in cond:
        script += "(assert %s)\n" % c
    for g in negated_goal:
        script += "(assert %s)\n" % g
    script += "(check-sat)\n(get-value (%s %s %s %s %s))\n" % (mem[0], mem[1], mem[2], args[0], args[1])
    rec = {"lemma": name, "cell_bytes": wb}
    if ctx.ops:
        rec["_extra_values"] = [ctx.ops[0], ctx.ops[1]] + ([ctx.opwords[1]] if (2 in ctx.opwords) else [])
    _PENDING.append((rec, _POOL.submit(solve, script), decls, list(cond), list(negated_goal), dict(mem), tuple(args), expect))


def finish(out):
    for rec, fut, decls, cond, negated_goal, mem, args, expect in _PENDING:
        ans, solver, dt, text, all_results = fut.result()
        rec.update({"answer": ans, "solver": solver, "seconds": round(dt, 2)})
        if expect.startswith("sat-any:"):
            grp = out.setdefault("_witness_groups", {}).setdefault(expect, [])
            grp.append(ans)
            out.setdefault("vacuity_witnesses", []).append(rec)
            continue
        if expect == "sat":
            out.setdefault("vacuity_witnesses", []).append(rec)
            if ans != "sat":
                out["inconclusive"].append("vacuity witness `%s` (cell %d bytes) is not satisfiable (%s): the lemmas over this path would hold vacuously" % (rec["lemma"], rec["cell_bytes"], ans))
            continue
        out["lemmas"].append(rec)
        if ans == "sat":
            rec["model"] = text.split("\n", 1)[1] if "\n" in text else ""
            # ask for a geometry small enough to replay natively through the public API
            small = "(set-logic ALL)\n" + decls + "\n"
            for c in cond:
                small += "(assert %s)\n" % c
            for g in negated_goal:
                small += "(assert %s)\n" % g
            small += "(assert (bvule %s %s))\n" % (mem[1], bv(4096))
            small += "(assert (and (bvsge %s %s) (bvsle %s %s)))\n" % (mem[2], bv(-4096), mem[2], bv(4096))
            for a in set(args):
                if rec["lemma"].startswith("L6") and a == args[0]:
                    continue
                small += "(assert (and (bvsge %s %s) (bvsle %s %s)))\n" % (a, bv(-4096), a, bv(4096))
            extra = rec.get("_extra_values", [])
            if rec["lemma"].startswith("L6"):
                small += "(assert (not (= %s %s)))\n" % (args[1], bv(0))   # a stationary scan cannot be replayed natively
                small += "(assert (and (bvsge %s %s) (bvsle %s %s)))\n" % (args[1], bv(-8), args[1], bv(8))
                if len(extra) >= 3:
                    small += "(assert (and (bvsge %s %s) (bvsle %s %s)))\n" % (extra[2], bv(-4), extra[2], bv(4))
            for e in extra:
                small += "(assert (and (bvsge %s %s) (bvsle %s %s)))\n" % (e, bv(-64), e, bv(64))
            small += "(check-sat)\n(get-value (%s %s %s %s%s))\n" % (mem[1], mem[2], args[0], args[1], "".join(" " + e for e in extra))
            a2, _, _, t2, _ = solve(small)
            if a2 == "sat":
                vals = [int(x, 2) for x in re.findall(r"#b([01]{64})", t2)]
                vals = [v - (1 << 64) if v >= (1 << 63) else v for v in vals]
                if len(vals) >= 4:
                    rec["small"] = {"cell_bytes": rec["cell_bytes"], "size": vals[0], "offset": vals[1], "a": vals[2], "b": vals[3], "extra": vals[4:]}
            rec.pop("_extra_values", None)
            out["violations"].append(rec)
        elif ans != "unsat":
            rec["solver_outputs"] = [r[3][:300] for r in all_results]
            out["inconclusive"].append("%s (cell %d bytes): no solver decided it (%s)" % (rec["lemma"], rec["cell_bytes"], ", ".join("%s:%s" % (r[1], r[0]) for r in all_results)))
        rec.pop("_extra_values", None)
    for g, answers in out.pop("_witness_groups", {}).items():
        if "sat" not in answers:
            out["inconclusive"].append("no feasible path in witness group %s (%s): the lemmas of that group would hold vacuously" % (g, answers))
    del _PENDING[:]


if __name__ == "__main__":
    main()
