#!/bin/bash
# Confirm a seeded change in a scratch worktree of /repo's HEAD: demo passes without it,
# the project builds and its whole test suite passes with it, demo fails with it.
# usage: confirm_seeded.sh <id>   (reads /verif/seeded/<id>/)
id=$1
W=/tmp/conf/$id
rm -rf $W; mkdir -p /tmp/conf
git -C /repo worktree add --detach $W HEAD -q || exit 9
mkdir -p $W/mutation; cp /verif/seeded/$id/* $W/mutation/ 2>/dev/null
cd $W
export CARGO_TARGET_DIR=$W/target CARGO_NET_OFFLINE=true
r_clean=skip
if [ -f mutation/demo.sh ]; then timeout 1200 sh mutation/demo.sh > $W/demo_clean.log 2>&1; r_clean=$?; fi
git apply mutation/patch.diff || { echo "$id: patch does not apply"; exit 8; }
timeout 1500 cargo test --offline > $W/test.log 2>&1; r_test=$?
passed=$(grep -E "^test result" $W/test.log | tr '\n' ' ')
r_mut=skip
if [ -f mutation/demo.sh ]; then timeout 1200 sh mutation/demo.sh > $W/demo_mut.log 2>&1; r_mut=$?; fi
echo "$id: demo_without_change=$r_clean tests_with_change=$r_test demo_with_change=$r_mut | $passed"
cd /; git -C /repo worktree remove --force $W
