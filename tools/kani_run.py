#!/usr/bin/env python3
"""Run Kani harnesses of /verif/kani in parallel with per-harness caps and write evidence.

usage: kani_run.py <PROPERTY> <tier>
Harness groups, expectations and bounds are declared in GROUPS below.
Exit 0 = all harnesses decided and as expected; 1 = a violation that replays;
2 = inconclusive (timeout / OOM / unexpected tool output) - never reported as a pass.
"""
import json, os, re, subprocess, sys, time, threading, shutil

ROOT = os.environ.get("VERIF_ROOT", "/verif")
KANI = f"{ROOT}/kani"

# name -> (expect, quick?, cap_s)   expect: "pass" | "fail" (must-fail vacuity twin)
def H(name, expect="pass", quick=True, cap=600, extra=()):
    return {"name": name, "expect": expect, "quick": quick, "cap": cap, "extra": list(extra)}

C18_OPS = ["push_and_drop", "retain", "retain_mut", "dedup", "clear_then_reuse", "clone_eq_cmp",
           "into_iter_partial", "iter_and_iter_mut", "slice_mut_swap_reverse"]
GROUPS = {
    "C18": {
        "harnesses": [H(f"c18_smallvec::n1::{o}") for o in C18_OPS]
                     + [H(f"c18_smallvec::n2::{o}", quick=True) for o in C18_OPS]
                     + [H(f"c18_smallvec::b1::{o}") for o in ("promote_and_drop", "promote_retain", "promote_into_iter_partial")]
                     + [H(f"c18_smallvec::b2::{o}", quick=False, cap=1500) for o in ("promote_and_drop", "promote_retain", "promote_into_iter_partial")]
                     + [H("c18_smallvec::vacuity_twin_must_fail", expect="fail")],
        "functions": ["/repo/src/smallvec.rs (included verbatim with #[path]): SmallVec::{new, push, push_promote, extend, clear, as_slice, as_slice_mut, retain, retain_mut, dedup, clone, eq, cmp, into_iter, drop}, SmallVecIntoIter::{next, drop}"],
        "bounds": "inline capacities N in {1,2}; fully symbolic length <= N, element values and predicate masks for the inline representation; concrete lengths N+1 (symbolic values/predicates) for the inline->heap promotion and heap->inline clone; one operation after the construction sequence; unwinding assertions on",
        "outside": "sequences of more than one mutating operation after construction; capacities other than 1 and 2; heap-backed vectors longer than 3",
        "level": "model_checking",
    },
}


def load_extra():
    p = f"{ROOT}/tools/kani_groups.py"
    if os.path.exists(p):
        import importlib.util
        spec = importlib.util.spec_from_file_location("kani_groups", p)
        mod = importlib.util.module_from_spec(spec)
        spec.loader.exec_module(mod)
        mod.extend(GROUPS, H)


def run_one(h, env, results, sem):
    with sem:
        t0 = time.time()
        cmd = ["cargo", "kani", "--exact", "--harness", h["name"], "--output-format", "terse"] + h["extra"]
        log = f"{ROOT}/scratch/kani-{h['name'].replace('::', '.')}.log"
        pre = f"ulimit -v {24 * 1024 * 1024}; exec timeout {h['cap']} " + " ".join(cmd)
        with open(log, "w") as lf:
            p = subprocess.run(["bash", "-c", pre], cwd=KANI, env=env, stdout=lf, stderr=subprocess.STDOUT)
        out = open(log, errors="replace").read()
        wall = time.time() - t0
        status = "unknown"
        if p.returncode == 124:
            status = "timeout"
        elif "VERIFICATION:- SUCCESSFUL" in out:
            status = "pass"
        elif "VERIFICATION:- FAILED" in out:
            status = "fail"
        if "Status: ERROR" in out or "out of memory" in out.lower() or "std::bad_alloc" in out:
            status = "error"
        failed = re.findall(r'Failed Checks: (.*)', out)
        if status == "fail" and not failed:
            status = "error"  # CBMC died / was killed: never a verdict
        unwind = any("unwinding assertion" in f for f in failed)
        m = re.search(r"Verification Time: ([0-9.]+)s", out)
        checks = re.search(r"\*\* (\d+) of (\d+) failed", out)
        results[h["name"]] = {"status": status, "wall_s": round(wall, 1), "solver_s": float(m.group(1)) if m else None,
                              "failed_checks": failed[:6], "unwinding_failure": unwind,
                              "properties_checked": int(checks.group(2)) if checks else None, "log": log}


def main():
    prop, tier = sys.argv[1], (sys.argv[2] if len(sys.argv) > 2 else "quick")
    load_extra()
    g = GROUPS[prop]
    hs = [h for h in g["harnesses"] if tier == "thorough" or h["quick"]]
    os.makedirs(f"{ROOT}/scratch", exist_ok=True)
    env = dict(os.environ)
    env["CARGO_NET_OFFLINE"] = "true"
    env.pop("RUSTFLAGS", None)
    t0 = time.time()
    # keep the lock file in sync with the repository's
    try:
        shutil.copy("/repo/Cargo.lock", f"{KANI}/Cargo.lock")
    except Exception:
        pass
    # one serial build first so the parallel runs only re-run CBMC
    first = hs[0]
    results = {}
    run_one(first, env, results, threading.Semaphore(1))
    sem = threading.Semaphore(int(os.environ.get("KANI_JOBS", "8")))
    ths = [threading.Thread(target=run_one, args=(h, env, results, sem)) for h in hs[1:]]
    for t in ths:
        t.start()
    for t in ths:
        t.join()
    violations, inconclusive, ok = [], [], 0
    known = json.load(open(f"{ROOT}/known_findings.json")).get("findings", [])
    known_hits = []
    for h in hs:
        r = results[h["name"]]
        if r["status"] in ("timeout", "error", "unknown") or r["unwinding_failure"]:
            inconclusive.append((h["name"], r["status"] + (" (unwinding assertion failed: bound too small)" if r["unwinding_failure"] else "")))
        elif r["status"] == h["expect"]:
            ok += 1
        elif h["expect"] == "fail":
            inconclusive.append((h["name"], "vacuity twin did not fail: the harness family may be vacuous"))
        else:
            k = [e for e in known if e.get("property") == prop and e.get("harness") == h["name"]]
            if k:
                known_hits.append((h["name"], k[0]))
            else:
                violations.append((h["name"], r))
    for name, e in known_hits:
        print(f"KNOWN-FINDING: property={prop} harness {name}: {e.get('what', '')} (id {e.get('id')})")
    rc = 0
    for name, r in violations:
        # concrete playback = the native replay of a Kani counterexample
        rp = f"{ROOT}/replays/{prop}-{name.replace('::', '.')}.txt"
        os.makedirs(f"{ROOT}/replays", exist_ok=True)
        cmd = f"timeout 900 cargo kani --exact --harness {name} -Z concrete-playback --concrete-playback=print --output-format terse"
        p = subprocess.run(["bash", "-c", cmd], cwd=KANI, env=env, capture_output=True, text=True)
        with open(rp, "w") as f:
            f.write(f"# Kani counterexample for {name}\n# failed checks: {r['failed_checks']}\n# replay: cd /verif/kani && {cmd}\n\n")
            m = re.search(r"Concrete playback unit test.*?```(.*?)```", p.stdout, re.S)
            f.write(m.group(1) if m else p.stdout[-4000:])
        print(f"VIOLATION property={prop} replay={rp}")
        print(f"  harness {name}: failed checks {r['failed_checks'][:3]}")
        rc = 1
    for name, why in inconclusive:
        print(f"INCONCLUSIVE: harness {name}: {why}")
    if inconclusive and rc == 0:
        rc = 2
    samples = [{"harness": h["name"], **{k: v for k, v in results[h["name"]].items() if k != "log"}} for h in hs[:8]]
    ev = {
        "property_id": prop, "tier": tier, "seed": int(os.environ.get("VERIF_SEED", "1")),
        "level": g["level"],
        "coverage": {
            "evaluations": len(hs), "distinct_nontrivial": sum(1 for h in hs if (results[h["name"]]["properties_checked"] or 0) > 1),
            "rule": "one case = one Kani proof harness (CBMC decides every assertion, pointer/arithmetic check and unwinding assertion over all kani::any() values); non-trivial = CBMC checked more than one property in it",
            "samples": samples,
            "states": sum((results[h["name"]]["properties_checked"] or 0) for h in hs) or 1,
            "transitions": len(hs),
            "traces_validated_against_impl": len(violations),
            "harnesses": {h["name"]: results[h["name"]]["status"] for h in hs},
            "harnesses_as_expected": ok, "inconclusive": len(inconclusive), "known_findings_matched": [n for n, _ in known_hits],
            "functions_encoded": g["functions"], "bounds": g["bounds"], "outside": g["outside"],
            "solver_seconds": round(sum((results[h["name"]]["solver_s"] or 0) for h in hs), 1),
            "engine": "Kani 0.68 / CBMC 6.11 (cadical)", "stubs": g.get("stubs", []),
            "explanation": "Kani proof harnesses over the compiled real code, bounded by #[kani::unwind] with unwinding assertions on; a must-fail twin guards against vacuity",
        },
        "assumptions": ["CBMC/Kani soundness for the checked Rust fragment", "the stated unwind bounds (checked by unwinding assertions)"] + g.get("assumptions", []),
        "wall_s": round(time.time() - t0, 1), "violations": len(violations),
    }
    os.makedirs(f"{ROOT}/evidence", exist_ok=True)
    json.dump(ev, open(f"{ROOT}/evidence/{prop}.json", "w"), indent=1)
    print(f"{prop} {tier} [kani]: harnesses={len(hs)} as_expected={ok} violations={len(violations)} inconclusive={len(inconclusive)} known={len(known_hits)} wall={ev['wall_s']}s")
    sys.exit(rc)


if __name__ == "__main__":
    main()
