"""Additional Kani harness groups (C09, C14, C17, C04 source-text sub-claim)."""

def extend(G, H):
    ops = ["write", "make_accessible", "nonalloc_ops", "far_move", "ptr_roundtrip"]
    G["C09"] = {
        "harnesses": [H(f"c09_memory::w8::{o}", cap=900) for o in ops]
                     + [H("c09_memory::vacuity_twin_must_fail", expect="fail", cap=900)]
                     + [H(f"c09_memory::w16::{o}", quick=False, cap=1800) for o in ops]
                     + [H(f"c09_memory::w64::{o}", quick=False, cap=1800) for o in ops if o not in ("write", "make_accessible")],
        "functions": ["hpbf::runtime::Memory::<C>::{new, mov, read, write, write_out_of_bounds, make_accessible, check, current_ptr, set_current_ptr, check_ptr, drop} for C = u8 (quick) + u16 and u64 (thorough; u64 without the growing write step, which exhausts 24 GB in CBMC)"],
        "bounds": "inductive one-step formulation: pre-state = new; mov(o0 in [-2,2]); optional make_accessible(a,b) within [-2,2]; optional write at an offset in [-2,2]; mov(o1 in [-1,1]), all arguments symbolic; then one operation with symbolic arguments (write at [-2,2] / make_accessible with start in [-4,1] and end in [-1,6] / read+check+mov within [-3,3] / far move with 2^40 < |o| < 2^62 / pointer round trip); every logical cell of [-7,7] is read back against a map model; unwind 17 with unwinding assertions",
        "outside": "offsets beyond the stated ranges; allocations whose size arithmetic overflows usize; histories longer than the pre-state plus one operation are covered only through the inductive argument (the pre-state is reachable by construction but not every reachable state is a pre-state)",
        "level": "model_checking",
    }
    G["C17"] = {
        "harnesses": [H("c17_allocfail::memory_growth_failure", extra=["-Z", "stubbing"]),
                      H("c17_allocfail::memory_growth_no_failure_reaches_end", extra=["-Z", "stubbing"]),
                      H("c17_allocfail::vacuity_twin_must_fail", expect="fail", extra=["-Z", "stubbing"])],
        "functions": ["hpbf::runtime::Memory::<u8>::{write, write_out_of_bounds, make_accessible, read}"],
        "bounds": "three growth requests (two writes at symbolic offsets in [-4,4] and [-8,8], one make_accessible with symbolic range inside [-12,12]) with the k-th alloc_zeroed request (k symbolic in 1..=3) returning null",
        "outside": "the interpreter-context allocation in bcint::build_context (same code shape, not reachable from an external harness without running the threaded interpreter under CBMC); more than three growth requests",
        "stubs": ["std::alloc::alloc_zeroed -> returns null on the k-th request, otherwise alloc + zero fill", "std::alloc::handle_alloc_error -> clean-abort marker (path ends)"],
        "level": "fault_enumeration",
    }
    G["C14"] = {
        "harnesses": [H("c14_cell::div_u8_is_smallest_solution"), H("c14_cell::inv_u8"), H("c14_cell::pow_u8_is_repeated_multiplication"),
                      H("c14_cell::p8::conversions_and_shifts"), H("c14_cell::p16::conversions_and_shifts"),
                      H("c14_cell::p32::conversions_and_shifts"), H("c14_cell::p64::conversions_and_shifts"),
                      H("c14_cell::p8::mul_matches_primitive"), H("c14_cell::p16::mul_matches_primitive"),
                      H("c14_cell::p32::mul_matches_primitive"), H("c14_cell::p64::mul_matches_primitive"),
                      H("c14_cell::vacuity_twin_must_fail", expect="fail")],
        "functions": ["<u8 as hpbf::CellType>::{wrapping_div, wrapping_inv, wrapping_pow}", "<uN as hpbf::CellType>::{into_u64, into_i64, from_u64, from_u8, into_u8, from_i16, try_into_i16, wrapping_shl, wrapping_shr, wrapping_add, wrapping_neg, wrapping_mul (by a constant), bitand, trailing_zeros, is_odd} for N in {8,16,32,64}"],
        "bounds": "all (n,d) and all (base,exp) at 8 bits (unwind 10 >= 8 exponent bits + 1); all operands for the loop-free per-width methods",
        "outside": "division / inverse / power at 16, 32 and 64 bits are decided by the symx part of this check (terms extracted from the real code, z3/cvc5), see coverage.symx",
        "level": "model_checking",
    }
    G["C04K"] = {
        "harnesses": [H("c04_source::every_ascii_source_up_to_2_bytes", quick=False, cap=2400), H("c04_source::every_ascii_source_up_to_3_bytes", quick=False, cap=2400)],
        "functions": ["hpbf::exec::InplaceInterpreter::<u8>::{create, execute_limited}"],
        "bounds": "every ASCII source text of <= 4 bytes without I/O commands, budget 2, unwind 22",
        "outside": "longer sources; I/O commands (covered by the symx part)",
        "level": "model_checking",
    }
