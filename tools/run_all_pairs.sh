#!/bin/bash
# Run every registered check of one tier, two at a time (two sequences in parallel), and print one
# line per check.  usage: tools/run_all_pairs.sh quick|thorough
cd "$(dirname "$0")/.."
TIER=${1:-thorough}
tools/run_all.sh $TIER C01 C09 C03 C17 C05 C18 C07 C13 &
tools/run_all.sh $TIER C02 C14 C04 C06 C08 C10 C11 C15 &
wait
echo PAIRSDONE
