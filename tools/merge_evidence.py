#!/usr/bin/env python3
"""Merge partial evidence files (one per build profile) into /verif/evidence/<id>.json."""
import json, os, sys

prop = sys.argv[1]
parts = []
for p in sys.argv[2:]:
    try:
        parts.append(json.load(open(p)))
    except Exception as e:
        print(f"INCONCLUSIVE: missing partial evidence {p}: {e}")
        sys.exit(2)
out = parts[0]
cov = out["coverage"]
cov["parts"] = [{"profile": p["coverage"].get("profile"), "wall_s": p["wall_s"],
                 "jobs": p["coverage"].get("jobs"), "paths": p["coverage"].get("paths"),
                 "solver_queries": p["coverage"].get("solver_queries"),
                 "jobs_skipped_by_time_box": p["coverage"].get("jobs_skipped_by_time_box")} for p in parts]
for p in parts[1:]:
    c = p["coverage"]
    for k, v in c.items():
        if isinstance(v, bool):
            continue
        if isinstance(v, (int, float)) and isinstance(cov.get(k), (int, float)) and k not in ("programs",):
            cov[k] = cov[k] + v
        elif k == "samples":
            cov["samples"] = cov.get("samples", []) + v
        elif k == "inconclusive_samples":
            cov[k] = cov.get(k, []) + v
    out["wall_s"] = max(out["wall_s"], p["wall_s"])
    out["violations"] = out.get("violations", 0) + p.get("violations", 0)
cov["profile"] = " + ".join(str(p["coverage"].get("profile")) for p in parts)
root = os.environ.get("VERIF_ROOT", "/verif")
os.makedirs(f"{root}/evidence", exist_ok=True)
json.dump(out, open(f"{root}/evidence/{prop}.json", "w"), indent=1)
