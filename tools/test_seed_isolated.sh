#!/bin/bash
# Run one check against a *copy* of /repo with a seeded patch applied, without touching /repo
# or /verif (so background runs that read /repo are not disturbed).
# usage: [INST=<suffix>] test_seed_isolated.sh <patch.diff> <PROPERTY> [tier]   (INST: an independent instance, for running several at once)
PATCH=$1; PROP=$2; TIER=${3:-quick}
set -e
I=${INST:-}; M=/tmp/repo-mut$I; V=/tmp/vdev$I; T=/tmp/vdev-target$I
if [ ! -d $M ]; then git -C /repo worktree add --detach $M HEAD -q; fi
git -C $M checkout -q --detach $(git -C /repo rev-parse HEAD); git -C $M checkout -- . ; git -C $M clean -fdq -e target
git -C $M apply "$PATCH"
if [ ! -d $V ]; then git -C /verif worktree add --detach $V HEAD -q; fi
git -C $V checkout -q -- . ; git -C $V checkout -q --detach $(git -C /verif rev-parse HEAD)
sed -i "s#path = \"/repo\"#path = \"$M\"#" $V/symx/Cargo.toml $V/kani/Cargo.toml
sed -i "s#\"/repo/src/smallvec.rs\"#\"$M/src/smallvec.rs\"#" $V/kani/src/lib.rs
sed -i "s#/repo/Cargo.lock#$M/Cargo.lock#" $V/tools/kani_run.py
set +e
cd $V
export HPBF_REPO=$M SYMX_BIN=$T/debug/symx
# reuse one target dir across invocations
mkdir -p $V/symx/.cargo; printf '[build]\nrustflags = ["--cfg", "hpbf_verif"]\ntarget-dir = "'$T'"\n[net]\noffline = true\n' > $V/symx/.cargo/config.toml
sed -i "s#\\\$ROOT/symx/target/debug/symx#$T/debug/symx#g; s#\\\$ROOT/symx/target/release/symx#$T/release/symx#g" $V/check
VERIF_THREADS=${VERIF_THREADS:-8} ./check $PROP $TIER > $V/scratch-$PROP.out 2>&1
rc=$?
echo "$PROP exit $rc :: $(grep -c '^VIOLATION' $V/scratch-$PROP.out) violation line(s) :: $(grep -E '^VIOLATION' -A1 $V/scratch-$PROP.out | sed -n 2p | cut -c1-220) :: $(tail -n 1 $V/scratch-$PROP.out | cut -c1-200)"
