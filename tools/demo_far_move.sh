#!/bin/bash
# Demonstration of the known finding C03/C06-jit-disp32 on the real command line.
# Builds a release hpbf from a scratch copy of /repo, writes a 512 MiB program into a scratch
# directory and runs it with the bytecode interpreter (prints 01) and the baseline JIT (dies).
# Needs ~1 GB of disk and ~6 GB of memory; everything is removed afterwards.
set -e
S=$(mktemp -d /var/tmp/farmove.XXXXXX)
trap 'rm -rf "$S"' EXIT
rsync -a --exclude target --exclude .git /repo/ "$S/repo/"
(cd "$S/repo" && CARGO_NET_OFFLINE=true cargo build --release --offline -q 2>/dev/null)
python3 - "$S/big.bf" <<'PY'
import sys
n = 1 << 28
with open(sys.argv[1], 'wb') as f:
    f.write(b'+'); f.write(b'>' * n); f.write(b'+'); f.write(b'<' * n); f.write(b'.')
PY
H="$S/repo/target/release/hpbf"
echo "bytecode interpreter:"; "$H" -i64 --bc-int -O0 -f "$S/big.bf" | xxd | head -1
echo "baseline JIT:"; set +e; "$H" -i64 --base-jit -O0 -f "$S/big.bf" | xxd | head -1; rc=${PIPESTATUS[0]}
echo "baseline JIT exit status: $rc (139 = SIGSEGV)"
[ "$rc" != 0 ] && exit 1 || exit 0
