#!/usr/bin/env python3
"""Development aid (not a check): find corpus programs that reach compile-path regions which the
first ~90 programs of each family do not.  Needs a coverage-instrumented hpbf (see DESIGN).
usage: cover_order.py <hpbf-cov-binary> <prefix.txt> <candidates.txt> <out.txt>"""
import json, os, subprocess, sys, tempfile, shutil
H, PREFIX, CANDS, OUT = sys.argv[1:5]
B = subprocess.run(["rustc", "+nightly", "--print", "sysroot"], capture_output=True, text=True).stdout.strip() + "/lib/rustlib/x86_64-unknown-linux-gnu/bin"
FILES = ["src/opt.rs", "src/bc.rs", "src/ir.rs", "src/exec/basejit/codegen.rs", "src/exec/basejit/asm.rs", "src/exec/bcint/ops.rs", "src/exec/bcint/mod.rs"]
ROOT = os.path.dirname(os.path.dirname(os.path.dirname(os.path.abspath(H))))

def run(progs):
    d = tempfile.mkdtemp(prefix="cov-")
    env = dict(os.environ, LLVM_PROFILE_FILE=d + "/p-%m.profraw")
    for p in progs:
        for o in ("-O1", "-O3"):
            for w in ("-i8", "-i64"):
                for mode in ("--print-bc", "--print-jit-mc"):
                    subprocess.run([H, w, o, mode, p], env=env, stdout=subprocess.DEVNULL, stderr=subprocess.DEVNULL)
    out = d + "/m.profdata"
    raws = [d + "/" + f for f in os.listdir(d) if f.endswith(".profraw")]
    if not raws:
        shutil.rmtree(d); return set()
    subprocess.run([B + "/llvm-profdata", "merge", "-sparse"] + raws + ["-o", out], check=True)
    r = subprocess.run([B + "/llvm-cov", "export", H, "-instr-profile=" + out] + [ROOT + "/" + f for f in FILES], capture_output=True, text=True, cwd=ROOT)
    shutil.rmtree(d)
    cov = set()
    for f in json.loads(r.stdout)["data"][0]["files"]:
        for s in f["segments"]:
            if s[2] > 0 and s[3] and s[4]:
                cov.add((os.path.basename(f["filename"]), s[0], s[1]))
    return cov

prefix = [l.rstrip("\n") for l in open(PREFIX) if l.strip()]
cands = [l.rstrip("\n") for l in open(CANDS) if l.strip()]
covered = run(prefix)
print("prefix covers", len(covered), "regions", flush=True)
picked = []

def search(chunk):
    global covered
    if not chunk:
        return
    r = run(chunk)
    new = r - covered
    if not new:
        return
    if len(chunk) == 1:
        picked.append(chunk[0]); covered |= r
        print("pick (+%d): %s" % (len(new), chunk[0][:100]), flush=True)
        open(OUT, "w").write("\n".join(picked) + "\n")
        return
    h = len(chunk) // 2
    search(chunk[:h]); search(chunk[h:])

for i in range(0, len(cands), 200):
    search(cands[i:i + 200])
print("picked", len(picked), "programs; covered", len(covered))
