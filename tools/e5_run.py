#!/usr/bin/env python3
"""Run the E5 geometry lemmas (mir2smt) for a property, replay counterexamples natively and
merge the outcome into that property's evidence file.  usage: e5_run.py <PROPERTY> <tier>"""
import json, os, subprocess, sys, collections

ROOT = os.environ.get("VERIF_ROOT", "/verif")
prop, tier = sys.argv[1], (sys.argv[2] if len(sys.argv) > 2 else "quick")
symx = os.environ.get("SYMX_BIN", f"{ROOT}/symx/target/debug/symx")
families = sys.argv[3] if len(sys.argv) > 3 else "checked"
p = subprocess.run([sys.executable, f"{ROOT}/mir2smt/mir2smt.py", tier, families], capture_output=True, text=True)
try:
    d = json.loads(p.stdout)
except Exception:
    print("INCONCLUSIVE: mir2smt produced no result:", p.stderr[-300:])
    sys.exit(2)
rc = 0
confirmed, unconfirmed = [], []
_REL = []


def release_symx():
    """Build (once, only when a counterexample has to be confirmed) the release profile of symx."""
    if not _REL:
        if os.environ.get("SYMX_BIN_RELEASE"):
            _REL.append(os.environ["SYMX_BIN_RELEASE"])
        else:
            b = subprocess.run(["cargo", "build", "--release", "--offline"], cwd=f"{ROOT}/symx", capture_output=True, text=True)
            cand = [f"{ROOT}/symx/target/release/symx"]
            try:
                import re as _re
                m = _re.search(r'target-dir\s*=\s*"([^"]+)"', open(f"{ROOT}/symx/.cargo/config.toml").read())
                if m:
                    cand.insert(0, m.group(1) + "/release/symx")
            except Exception:
                pass
            _REL.append(next((c for c in cand if b.returncode == 0 and os.path.exists(c)), None))
    return _REL[0]


for v in d["violations"]:
    s = v.get("small")
    if not s:
        unconfirmed.append(v)
        continue
    if v["lemma"].startswith("L5") or v["lemma"].startswith("L6"):
        # a lemma about the interpreter's move/scan ops: rebuild the geometry and run the real
        # interpreter on [Mov/Scan; store at min; store at max] against the unbounded-tape reading,
        # block flush against a guard page.  The release build is used: a debug build re-enters
        # the ops (and re-establishes the window) before every instruction.
        ex = s.get("extra", [])
        if len(ex) < 2:
            unconfirmed.append(v)
            continue
        op = v["lemma"].split()[1].rstrip(":")
        unchecked = v["lemma"].startswith("L6")
        if unchecked:
            c0 = ex[2] if len(ex) >= 3 else 0
            ex = [min(0, c0), max(0, c0)] + list(ex[2:])
        case = {"kind": "probe", "engine": "bcint-unchecked" if unchecked else "bcint", "property": prop, "width": 8 * s["cell_bytes"], "shift": s["b"], "min": ex[0], "max": ex[1], "size": s["size"], "k": s["a"], "lemma": v["lemma"]}
        if op.startswith("scan") and len(ex) >= 3:
            case["scan_cond"] = ex[2]
        rel = release_symx()
        os.makedirs(f"{ROOT}/replays", exist_ok=True)
        cpath = f"{ROOT}/replays/{prop}-ops-{len(confirmed) + len(unconfirmed)}.json"
        json.dump(case, open(cpath, "w"), indent=1)
        r = subprocess.run([rel, "replay", cpath], capture_output=True, text=True) if rel else None
        if r is not None and (r.returncode in (1, 77, 101) or r.returncode < 0):
            msg = next((l for l in r.stdout.splitlines() if l.startswith("REPRODUCED")), "native run of the interpreter died (exit %d): access outside the owned block" % r.returncode)
            s2 = dict(s)
            s2["replay_file"] = cpath
            confirmed.append((v, s2, msg))
        else:
            unconfirmed.append(v)
        continue
    mode = []
    if v["lemma"].startswith("L4 check(i)"):
        mode = ["check"]
    elif v["lemma"].startswith("L4"):
        mode = ["ptr"]
    s["replay"] = "symx memreplay %d %d %d %d %d%s" % (s["cell_bytes"], s["size"], s["offset"], s["a"], s["b"], "".join(" " + m for m in mode))
    r = subprocess.run([symx, "memreplay", str(s["cell_bytes"]), str(s["size"]), str(s["offset"]), str(s["a"]), str(s["b"])] + mode, capture_output=True, text=True)
    if r.returncode == 1:
        confirmed.append((v, s, r.stdout.strip()))
    else:
        unconfirmed.append(v)
seen = set()
os.makedirs(f"{ROOT}/replays", exist_ok=True)
for v, s, msg in confirmed:
    key = (v["lemma"], s["cell_bytes"])
    if key in seen or len(seen) >= 10:
        continue
    seen.add(key)
    if s.get("replay_file"):
        print(f"VIOLATION property={prop} replay={s['replay_file']}")
        print(f"  interpreter op lemma `{v['lemma']}` ({s['cell_bytes']}-byte cells): {msg}")
        rc = 1
        continue
    path = f"{ROOT}/replays/{prop}-geometry-{len(seen)}.json"
    json.dump({"kind": "memreplay", "property": prop, "lemma": v["lemma"], **s,
               "native": msg}, open(path, "w"), indent=1)
    print(f"VIOLATION property={prop} replay={path}")
    print(f"  geometry lemma `{v['lemma']}` ({s['cell_bytes']}-byte cells): {msg}")
    rc = 1
for v in unconfirmed[:5]:
    print(f"INCONCLUSIVE: geometry lemma `{v['lemma']}` ({v['cell_bytes']}-byte cells) has a solver model that could not be replayed natively (no small geometry)")
for s in d["inconclusive"][:5]:
    print("INCONCLUSIVE:", s)
if rc == 0 and (unconfirmed or d["inconclusive"]):
    rc = 2
cnt = collections.Counter(l["answer"] for l in d["lemmas"])
by = collections.Counter(l["lemma"].split(":")[0] for l in d["lemmas"])
summary = {
    "obligations": len(d["lemmas"]), "discharged_unsat": cnt.get("unsat", 0), "sat": cnt.get("sat", 0),
    "undecided": len(d["lemmas"]) - cnt.get("unsat", 0) - cnt.get("sat", 0),
    "solvers": dict(collections.Counter(l["solver"] for l in d["lemmas"])),
    "solver_seconds": round(sum(l["seconds"] for l in d["lemmas"]), 1),
    "functions_encoded": d["functions_encoded"], "mir_basic_blocks": d.get("mir_blocks"), "paths_per_cell_size": d.get("paths"),
    "lemma_families": dict(by),
    "preconditions": "L5: min_accessed <= 0 <= max_accessed within +-2^40, shift within +-2^40 with the sign the op is selected for, scan condition offset inside the window (C11); size*w < 2^60 and the block [buffer, buffer+size*w) does not wrap and is w-aligned; the logical pointer is within +-2^58 cells of the block; requested range / index within +-2^40; allocator contract: non-null (failure is C17), aligned, non-wrapping block",
    "lemmas": ["L1a no overflow / divide-by-zero assert of make_accessible is reachable",
               "L1 after make_accessible(s,e) both ends of the requested range are accessible; a reallocation copies exactly the old block to new_buffer + added_below with added_below + size <= new_size; offset' = offset + added_below; without reallocation the state is unchanged",
               "L4 check(i) and check_ptr(current_ptr()+k) hold exactly for cells inside the block; set_current_ptr(current_ptr()+k) moves the logical pointer by k",
               "L6 (only when the unchecked family is requested, C10) the SAFE = false instantiation of movl/movr/scanl/scanr is plain pointer arithmetic: shift cells per step, the scan condition read at cond, Memory untouched, next instruction at ip + 2 / ip + 3",
               "L5 the bytecode interpreter's movl/movr/scanl/scanr (checked instantiation, with checkl/checkr and the Memory methods inlined from their MIR): from a state where the whole access window [min_accessed, max_accessed] around the pointer is inside the block, after the move (or after one iteration of the scan loop, cut at the loop head) the whole window around the new pointer is inside the - possibly reallocated - block, the new pointer denotes the moved logical cell (same distance from the copied old block), every cell the scan condition reads is inside the block owned at that moment, no overflow assert is reachable, and the next instruction is at ip + 2 / ip + 3; one feasible path with and one without reallocation is exhibited per op and cell size (vacuity witnesses)"],
    "vacuity_witnesses": {"queries": len(d.get("vacuity_witnesses", [])), "satisfiable": sum(1 for w in d.get("vacuity_witnesses", []) if w.get("answer") == "sat")},
    "interpreter_op_paths": d.get("ops_paths"),
    "cell_sizes": [1, 2, 4, 8], "wall_s": d["wall_s"], "families_run": families,
    "confirmed_natively": len(confirmed), "not_replayable": len(unconfirmed),
    "samples": d["lemmas"][:3],
}
ev_path = f"{ROOT}/evidence/{prop}.json"
try:
    ev = json.load(open(ev_path))
    ev["coverage"]["geometry_lemmas_from_mir"] = summary
    ev["coverage"]["evaluations"] = ev["coverage"].get("evaluations", 0) + len(d["lemmas"])
    ev["violations"] = ev.get("violations", 0) + len(seen)
    json.dump(ev, open(ev_path, "w"), indent=1)
except Exception as e:
    print("INCONCLUSIVE: cannot merge the geometry lemmas into", ev_path, e)
    rc = max(rc, 2)
print(f"{prop} {tier} [mir2smt]: obligations={summary['obligations']} unsat={summary['discharged_unsat']} sat={summary['sat']} undecided={summary['undecided']} confirmed={len(confirmed)} wall={d['wall_s']}s")
sys.exit(rc)
