#!/usr/bin/env python3
"""Run the E5 geometry lemmas (mir2smt) for a property, replay counterexamples natively and
merge the outcome into that property's evidence file.  usage: e5_run.py <PROPERTY> <tier>"""
import json, os, subprocess, sys, collections

ROOT = os.environ.get("VERIF_ROOT", "/verif")
prop, tier = sys.argv[1], (sys.argv[2] if len(sys.argv) > 2 else "quick")
symx = os.environ.get("SYMX_BIN", f"{ROOT}/symx/target/debug/symx")
p = subprocess.run([sys.executable, f"{ROOT}/mir2smt/mir2smt.py", tier], capture_output=True, text=True)
try:
    d = json.loads(p.stdout)
except Exception:
    print("INCONCLUSIVE: mir2smt produced no result:", p.stderr[-300:])
    sys.exit(2)
rc = 0
confirmed, unconfirmed = [], []
for v in d["violations"]:
    s = v.get("small")
    if not s:
        unconfirmed.append(v)
        continue
    r = subprocess.run([symx, "memreplay", str(s["cell_bytes"]), str(s["size"]), str(s["offset"]), str(s["a"]), str(s["b"])], capture_output=True, text=True)
    if r.returncode == 1:
        confirmed.append((v, s, r.stdout.strip()))
    else:
        unconfirmed.append(v)
seen = set()
os.makedirs(f"{ROOT}/replays", exist_ok=True)
for v, s, msg in confirmed:
    key = (v["lemma"], s["cell_bytes"])
    if key in seen or len(seen) >= 10:
        continue
    seen.add(key)
    path = f"{ROOT}/replays/{prop}-geometry-{len(seen)}.json"
    json.dump({"kind": "memreplay", "property": prop, "lemma": v["lemma"], **s,
               "replay": f"symx memreplay {s['cell_bytes']} {s['size']} {s['offset']} {s['a']} {s['b']}", "native": msg}, open(path, "w"), indent=1)
    print(f"VIOLATION property={prop} replay={path}")
    print(f"  geometry lemma `{v['lemma']}` ({s['cell_bytes']}-byte cells): {msg}")
    rc = 1
for v in unconfirmed[:5]:
    print(f"INCONCLUSIVE: geometry lemma `{v['lemma']}` ({v['cell_bytes']}-byte cells) has a solver model that could not be replayed natively (no small geometry)")
for s in d["inconclusive"][:5]:
    print("INCONCLUSIVE:", s)
if rc == 0 and (unconfirmed or d["inconclusive"]):
    rc = 2
cnt = collections.Counter(l["answer"] for l in d["lemmas"])
by = collections.Counter(l["lemma"].split(":")[0] for l in d["lemmas"])
summary = {
    "obligations": len(d["lemmas"]), "discharged_unsat": cnt.get("unsat", 0), "sat": cnt.get("sat", 0),
    "undecided": len(d["lemmas"]) - cnt.get("unsat", 0) - cnt.get("sat", 0),
    "solvers": dict(collections.Counter(l["solver"] for l in d["lemmas"])),
    "solver_seconds": round(sum(l["seconds"] for l in d["lemmas"]), 1),
    "functions_encoded": d["functions_encoded"], "mir_basic_blocks": d.get("mir_blocks"), "paths_per_cell_size": d.get("paths"),
    "lemma_families": dict(by),
    "preconditions": "size*w < 2^60 and the block [buffer, buffer+size*w) does not wrap and is w-aligned; the logical pointer is within +-2^58 cells of the block; requested range / index within +-2^40; allocator contract: non-null (failure is C17), aligned, non-wrapping block",
    "lemmas": ["L1a no overflow / divide-by-zero assert of make_accessible is reachable",
               "L1 after make_accessible(s,e) both ends of the requested range are accessible; a reallocation copies exactly the old block to new_buffer + added_below with added_below + size <= new_size; offset' = offset + added_below; without reallocation the state is unchanged",
               "L4 check(i) and check_ptr(current_ptr()+k) hold exactly for cells inside the block; set_current_ptr(current_ptr()+k) moves the logical pointer by k"],
    "cell_sizes": [1, 2, 4, 8], "wall_s": d["wall_s"],
    "confirmed_natively": len(confirmed), "not_replayable": len(unconfirmed),
    "samples": d["lemmas"][:3],
}
ev_path = f"{ROOT}/evidence/{prop}.json"
try:
    ev = json.load(open(ev_path))
    ev["coverage"]["geometry_lemmas_from_mir"] = summary
    ev["coverage"]["evaluations"] = ev["coverage"].get("evaluations", 0) + len(d["lemmas"])
    ev["violations"] = ev.get("violations", 0) + len(seen)
    json.dump(ev, open(ev_path, "w"), indent=1)
except Exception as e:
    print("INCONCLUSIVE: cannot merge the geometry lemmas into", ev_path, e)
    rc = max(rc, 2)
print(f"{prop} {tier} [mir2smt]: obligations={summary['obligations']} unsat={summary['discharged_unsat']} sat={summary['sat']} undecided={summary['undecided']} confirmed={len(confirmed)} wall={d['wall_s']}s")
sys.exit(rc)
