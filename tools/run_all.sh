#!/bin/bash
# Run every registered check of one tier in sequence and print one line per check.
# usage: tools/run_all.sh quick|thorough [ids...]
cd "$(dirname "$0")/.."
TIER=${1:-quick}; shift
IDS=${@:-C01 C02 C03 C04 C05 C06 C07 C08 C09 C10 C11 C13 C14 C15 C17 C18}
mkdir -p scratch
for p in $IDS; do
  t0=$(date +%s)
  ./check $p $TIER > scratch/run-$TIER-$p.out 2>&1
  rc=$?
  echo "$p $TIER exit $rc wall $(( $(date +%s) - t0 ))s :: $(grep -E '^(VIOLATION|KNOWN-FINDING|INCONCLUSIVE)' scratch/run-$TIER-$p.out | head -3 | cut -c1-200 | tr '\n' '|') $(tail -n 1 scratch/run-$TIER-$p.out | cut -c1-220)"
done
echo ALLDONE
