#!/bin/bash
# Re-run, in isolation (copy of /repo, worktree of the committed /verif), every seeded change
# against the checks recorded as catching it.  usage: regress_seeded.sh [ids...]   (VERIF_THREADS caps the workers)
# Prints one line per (change, check): expected exit 1.
cd /verif
IDS=${@:-$(ls seeded)}
for id in $IDS; do
  for prop in $(python3 -c "import json,re;print(' '.join(sorted(set(re.findall(r'C\d\d', ' '.join(json.load(open('seeded/$id/meta.json'))['caught_by']))))))"); do
    echo -n "$id -> "
    INST=${INST:-a} tools/test_seed_isolated.sh /verif/seeded/$id/patch.diff $prop quick 2>&1 | tail -1 | cut -c1-260
  done
done
