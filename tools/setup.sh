#!/bin/bash
# Build the framework from files on disk only (offline).
set -e
cd "$(dirname "$0")/.."
export CARGO_NET_OFFLINE=true
export RUSTFLAGS="--cfg hpbf_verif"
mkdir -p evidence replays scratch
(cd symx && cargo build --offline && cargo build --offline --release)
(cd kani && cp /repo/Cargo.lock . && unset RUSTFLAGS && timeout 1200 cargo kani --exact --harness c14_cell::p8::mul_matches_primitive --output-format terse >/dev/null 2>&1 || true)
echo setup ok
