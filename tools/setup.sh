#!/bin/bash
# Build the framework from files on disk only (offline).
set -e
cd "$(dirname "$0")/.."
export CARGO_NET_OFFLINE=true
export RUSTFLAGS="--cfg hpbf_verif"
mkdir -p evidence replays scratch
(cd symx && cargo build --offline && cargo build --offline --release)
echo setup ok
