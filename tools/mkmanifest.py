#!/usr/bin/env python3
"""Source of truth for /verif/MANIFEST.json (run after editing)."""
import json, subprocess

props = [json.loads(l) for l in open('/verif/properties.jsonl')]
ids = [p['id'] for p in props]

def chk(pid, cat, text, note, tech, engine="symx", replay="./symx/target/debug/symx replay {path}"):
    return {"property_id": pid, "quick_cmd": f"./check {pid} quick", "thorough_cmd": f"./check {pid} thorough",
            "evidence_file": f"/verif/evidence/{pid}.json", "replay_cmd_template": replay, "engine": engine,
            "level_claimed": {"category": cat, "text": text, "design_ref": "DESIGN.md section 4, " + pid},
            "level_note": note, "technique": tech}

BASE_NOTE = ("trusted: z3 4.8.12 unsat answers (thorough tier cross-checks with cvc5 where stated), the affine term normaliser "
             "(differentially self-tested every run), the reference interpreter refbf (validated every run against the repository's own "
             "expected outputs); program text is enumerated (EXH/GEN/STRUCT/REPO corpus), not symbolic; path/decision/step/time bounds as "
             "reported in the evidence file")
SYMX = "bounded symbolic execution of the real generic hpbf code over SMT bit-vector terms (SymCell implements hpbf::CellType), SMT-decided comparison with a reference interpreter, native replay of counterexamples"

checks = [
 chk("C01", "translation_validation",
     "For every program of the corpus, every width and optimisation level, the real parse/optimize/IrInterpreter code runs symbolically over all input bytes and end-of-input positions; the solver decides on every explored path that each output byte and the interleaving with input requests equal the reference's.  SHAPES part: up to 3 constants of a corpus program become solver variables, the real optimize() runs inside the exploration and unoptimised vs optimised IR are compared for all values of those constants (within the decision cap).",
     BASE_NOTE, SYMX),
 chk("C02", "translation_validation",
     "As C01 for parse/optimize/bc::CodeGen::translate/BcInterpreter threaded code, in both build profiles (debug-assertions trampolined dispatch and release tail-called dispatch).",
     BASE_NOTE + "; the release harness relies on the same tail-call elimination as the real cell types", SYMX + ", dev and release builds"),
 chk("C04", "model_checking",
     "The real InplaceInterpreter runs symbolically on every program of the corpus (including comment bytes and multi-byte characters) with all input bytes symbolic; the solver decides event-log equality with the reference on every explored path.",
     BASE_NOTE, SYMX),
 chk("C05", "model_checking",
     "Reference paths are classified by the solver (halted / proved divergent through a state recurrence decided under the path condition); on divergent paths every interpreter/level must stay unfinished under budgets 64 and 256 with events a prefix of the periodic canonical stream, on halted paths the unlimited call must return.",
     BASE_NOTE + "; non-return of the subject only up to budget 256", SYMX + ", solver-proved divergence of the reference"),
 chk("C06", "model_checking",
     "The real interpreters run symbolically in checked mode while every alloc_zeroed block (tape, interpreter context and temporaries) is placed flush against PROT_NONE pages (left and right placements); any out-of-allocation access on any explored path faults, is replayed natively under the same allocator and reported; event equality with the reference establishes that cells keep their values across reallocations.  For every tape geometry (symbolic buffer, size, pointer; all 64-bit values within the stated preconditions) three lemma families are decided by the solver: the Memory functions (MIR), the bytecode interpreter's movl/movr/scanl/scanr with checkl/checkr inlined (MIR, scan loop cut at its head as an inductive step), and the JIT's pointer-move machine code (x86 model): the whole access window stays inside the (possibly reallocated) block and the pointer denotes the moved logical cell.",
     BASE_NOTE + "; JIT accesses are bounds-checked exactly in the x86 model; geometry lemmas for the Memory functions are translated from MIR and decided for all 64-bit geometries within the stated preconditions (cvc5 integer encoding, cross-checked by bit-blasting solvers when it does not answer)", SYMX + " under a guard-page allocator; MIR-to-SMT lemmas for the tape geometry and the interpreter's move/scan ops; x86-model lemmas for the JIT's pointer-move sequence with symbolic geometry"),
 chk("C07", "model_checking",
     "execute_limited of every interpreter/level runs symbolically for every listed budget and 2^62 on every explored path: finished implies the complete canonical event sequence, interrupted implies a prefix, 2^62 implies finished on halted paths, and no budget reports finished on proved-divergent paths; a limited run exceeding the operation cap is replayed under a wall clock.",
     BASE_NOTE + "; budgets enumerated (listed budgets + 2^62)", SYMX),
 chk("C08", "fault_enumeration",
     "The failing event (refused output as Err or Ok(0), failing input request) is a free decision of the symbolic exploration at each of the first K events of every explored path, plus the configurations input absent / output absent; events up to the fault must equal the reference's, none may follow, the call returns Ok without panic.",
     BASE_NOTE + "; the baseline JIT is covered through the x86 model", SYMX + ", fault position as a solver-visible free decision"),
 chk("C10", "model_checking",
     "execute_unsafe of the bytecode interpreter runs symbolically on a context pre-grown to the canonical excursion of each path plus the program length, the region fenced on both sides by PROT_NONE pages; events must equal the reference's and no access may leave the region (run in the debug and in the release profile: the interpreter's dispatch differs).  The unchecked instantiation of the interpreter's move/scan ops is additionally translated from MIR and decided for every pointer, shift and condition offset: exactly shift cells per step, the condition read at cond, tape state untouched.",
     BASE_NOTE + "; the JIT's static code is bounds-checked exactly in the x86 model", SYMX + " under a guard-page allocator; MIR-to-SMT lemmas for the unchecked move/scan ops"),
 chk("C13", "model_checking",
     "Claimed part only: every executor build (parse, optimize, translate, threaded code) on the corpus runs under catch_unwind and a time cap, and each executor is executed twice on fresh contexts on every explored path, the two symbolic event logs must be identical terms.  Two sampling monitors (not solver-decided, labelled so in the evidence) report on the clauses this technique cannot decide: re-compilation in one process (hash seeds) and compile time on multiplication chains (blow-up guards).",
     BASE_NOTE + "; NOT claimed: independence from hash seeds, cross-process determinism, the complexity clause", SYMX),
]

reasons = {
 "C03": "the x86-64 symbolic model of the emitted machine code (DESIGN E2) is not built yet; no other engine here executes JIT output symbolically",
 "C09": "Kani harness crate not built yet",
 "C11": "symbolic bytecode validator (DESIGN E4) not built yet",
 "C12": "the quantifier is over source text; Program::parse is not encodable by any engine here (hashbrown inside CBMC: 3 symbolic bytes did not finish in 20 min); see DESIGN.md C12",
 "C14": "Kani / term-level harnesses not built yet",
 "C15": "expression-algebra harness not built yet",
 "C16": "main() reads std::env::args, files and process streams; no engine here executes it symbolically; see DESIGN.md C16",
 "C17": "Kani harness crate not built yet",
 "C18": "Kani harness crate not built yet",
}

import importlib.util, os
extra = '/verif/tools/manifest_extra.py'
if os.path.exists(extra):
    spec = importlib.util.spec_from_file_location("manifest_extra", extra)
    mod = importlib.util.module_from_spec(spec); spec.loader.exec_module(mod)
    mod.extend(checks, reasons, chk)

claimed = {c['property_id'] for c in checks}
m = {
 "version": 1,
 "setup_cmd": "cd /verif && ./tools/setup.sh",
 "hooks": {"guard": "hpbf_verif", "enable": "RUSTFLAGS='--cfg hpbf_verif' (set by /verif/check for every build of /repo as a path dependency)",
           "baseline_off_cmd": "cd /repo && cargo test --workspace --no-fail-fast --offline",
           "source_commits": [], "add_only": True},
 "engines": [
  {"name": "symx", "path": "/verif/symx", "serves_properties": sorted(c['property_id'] for c in checks if c['engine'] == 'symx'),
   "kind_free_text": "symbolic execution of the real generic hpbf code over SMT terms; z3/cvc5 over SMT-LIB2 pipes; guard-page allocator; native replay"},
 ],
 "checks": checks,
 "not_applicable": [{"property_id": i, "reason": reasons.get(i, "not built")} for i in ids if i not in claimed],
 "notes": "Genuine defects found and repaired are listed in /verif/known_findings.json ('fixed'); one recorded finding (JIT 32-bit displacements, C03/C06) is listed under 'findings' and printed as KNOWN-FINDING; see DESIGN.md section 10.",
}
if os.path.exists(extra):
    mod.finish(m)
json.dump(m, open('/verif/MANIFEST.json', 'w'), indent=1)
print("claimed:", sorted(claimed))
