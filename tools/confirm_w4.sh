#!/bin/bash
# Confirm a seeded change (waves 4+) in the sub-agent's own scratch worktree /tmp/${PFX:-w4}-<ID>:
# demo passes on the clean tree, the test suite passes with the change, demo fails with it.
id=$1; W=/tmp/${PFX:-w4}-$id
cd $W || exit 9
export CARGO_TARGET_DIR=$W/target CARGO_NET_OFFLINE=true
git checkout -- src || exit 9
timeout 1500 ./demo.sh > $W/demo_clean.log 2>&1; r_clean=$?
git apply patch.diff || { echo "$id: patch does not apply"; exit 8; }
timeout 1500 cargo test --workspace --offline > $W/test.log 2>&1; r_test=$?
passed=$(grep -E "^test result" $W/test.log | tr '\n' ' ')
timeout 1500 ./demo.sh > $W/demo_mut.log 2>&1; r_mut=$?
echo "$id: demo_without_change=$r_clean tests_with_change=$r_test demo_with_change=$r_mut | $passed"
rm -rf $W/target
