//! C14: the default methods of `CellType` on the compiled code at 8 bits (all operands),
//! and the per-width primitive methods at all four widths.
use hpbf::CellType;

#[kani::proof]
#[kani::unwind(10)]
fn div_u8_is_smallest_solution() {
    let n: u8 = kani::any();
    let d: u8 = kani::any();
    let y: u8 = kani::any(); // universally quantified witness
    match <u8 as CellType>::wrapping_div(n, d) {
        Some(x) => {
            assert!(x.wrapping_mul(d) == n, "x*d == n");
            if y < x {
                assert!(y.wrapping_mul(d) != n, "no smaller solution exists");
            }
        }
        None => {
            assert!(y.wrapping_mul(d) != n, "none only when no solution exists");
        }
    }
    kani::cover!(<u8 as CellType>::wrapping_div(n, d).is_none());
    kani::cover!(d % 2 == 0 && d != 0 && <u8 as CellType>::wrapping_div(n, d).is_some() && n != 0);
}

#[kani::proof]
#[kani::unwind(10)]
fn inv_u8() {
    let d: u8 = kani::any();
    match <u8 as CellType>::wrapping_inv(d) {
        Some(i) => {
            assert!(d % 2 == 1);
            assert!(i.wrapping_mul(d) == 1);
        }
        None => assert!(d % 2 == 0),
    }
}

#[kani::proof]
#[kani::unwind(10)]
fn pow_u8_is_repeated_multiplication() {
    let b: u8 = kani::any();
    let e: u8 = kani::any();
    assert!(<u8 as CellType>::wrapping_pow(b, 0) == 1);
    kani::assume(e < 255);
    let p = <u8 as CellType>::wrapping_pow(b, e);
    let q = <u8 as CellType>::wrapping_pow(b, e + 1);
    assert!(q == p.wrapping_mul(b));
}

macro_rules! prim {
    ($m:ident, $t:ty, $s:ty, $bits:expr) => {
        mod $m {
            use hpbf::CellType;
            #[kani::proof]
            fn conversions_and_shifts() {
                let x: $t = kani::any();
                assert!(<$t as CellType>::BITS == $bits);
                assert!(<$t as CellType>::ZERO == 0 && <$t as CellType>::ONE == 1);
                assert!(<$t as CellType>::NEG_ONE.wrapping_add(1) == 0);
                // zero extension / truncation
                assert!(<$t as CellType>::from_u64(x.into_u64()) == x);
                assert!(x.into_u64() <= <$t>::MAX as u64);
                let big: u64 = kani::any();
                assert!(<$t as CellType>::from_u64(big) as u64 == big & (<$t>::MAX as u64));
                // sign extension
                assert!(x.into_i64() == (x as $s) as i64);
                assert!(<$t as CellType>::from_u64(x.into_i64() as u64) == x);
                // bytes
                let b: u8 = kani::any();
                assert!(<$t as CellType>::from_u8(b).into_u8() == b);
                assert!(<$t as CellType>::from_u8(b).into_u64() == b as u64);
                assert!(x.into_u8() == (x.into_u64() & 0xff) as u8);
                // i16
                let v: i16 = kani::any();
                let c = <$t as CellType>::from_i16(v);
                assert!(c == (v as i64 as u64) as $t);
                if $bits >= 16 || (v >= -128 && v <= 127) {
                    assert!(c.try_into_i16() == Some(v));
                }
                match x.try_into_i16() {
                    Some(w) => assert!(<$t as CellType>::from_i16(w) == x),
                    None => assert!(x.into_i64() > i16::MAX as i64 || x.into_i64() < i16::MIN as i64),
                }
                // shifts return 0 when the shift reaches the width
                let k: u32 = kani::any();
                kani::assume(k <= $bits + 1);
                let l = <$t as CellType>::wrapping_shl(x, k);
                let r = <$t as CellType>::wrapping_shr(x, k);
                if k >= $bits {
                    assert!(l == 0 && r == 0);
                } else {
                    assert!(l == x << k && r == x >> k);
                }
                // arithmetic
                let y: $t = kani::any();
                assert!(<$t as CellType>::wrapping_add(x, y) == x.wrapping_add(y));
                assert!(<$t as CellType>::wrapping_neg(x).wrapping_add(x) == 0);
                assert!(<$t as CellType>::bitand(x, y) == x & y);
                assert!(<$t as CellType>::trailing_zeros(x) == x.trailing_zeros());
                assert!(<$t as CellType>::is_odd(x) == (x & 1 == 1));
            }
            #[kani::proof]
            fn mul_matches_primitive() {
                let x: $t = kani::any();
                let c: $t = 0x35;
                assert!(<$t as CellType>::wrapping_mul(x, c) == x.wrapping_mul(c));
            }
        }
    };
}

prim!(p8, u8, i8, 8);
prim!(p16, u16, i16, 16);
prim!(p32, u32, i32, 32);
prim!(p64, u64, i64, 64);

#[kani::proof]
#[kani::unwind(10)]
fn vacuity_twin_must_fail() {
    let n: u8 = kani::any();
    let d: u8 = kani::any();
    if let Some(x) = <u8 as CellType>::wrapping_div(n, d) {
        assert!(x.wrapping_mul(d) != n);
    }
}
