//! Kani proof harnesses over the real hpbf code (external crate, no in-tree harness code).
#![allow(unused)]

#[cfg(kani)]
#[path = "/repo/src/smallvec.rs"]
mod smallvec;

#[cfg(kani)]
mod c18_smallvec;
#[cfg(kani)]
mod c09_memory;
#[cfg(kani)]
mod c17_allocfail;
#[cfg(kani)]
mod c14_cell;
#[cfg(kani)]
mod c04_source;
