//! C18: the real `src/smallvec.rs` (included by #[path]) against a fixed-array model,
//! with drop accounting.
use crate::smallvec::SmallVec;

static mut LIVE: i32 = 0;
static mut CREATED: [u8; 8] = [0; 8];
static mut DROPPED: [u8; 8] = [0; 8];

#[derive(Debug)]
struct Tr {
    id: u8,
    val: u8,
}

impl Tr {
    fn new(id: u8, val: u8) -> Tr {
        unsafe {
            LIVE += 1;
            CREATED[id as usize] += 1;
        }
        Tr { id, val }
    }
}

impl Drop for Tr {
    fn drop(&mut self) {
        unsafe {
            LIVE -= 1;
            DROPPED[self.id as usize] += 1;
        }
    }
}

impl Clone for Tr {
    fn clone(&self) -> Tr {
        Tr::new(self.id, self.val)
    }
}

impl PartialEq for Tr {
    fn eq(&self, o: &Tr) -> bool {
        self.val == o.val
    }
}
impl Eq for Tr {}
impl PartialOrd for Tr {
    fn partial_cmp(&self, o: &Tr) -> Option<core::cmp::Ordering> {
        Some(self.cmp(o))
    }
}
impl Ord for Tr {
    fn cmp(&self, o: &Tr) -> core::cmp::Ordering {
        self.val.cmp(&o.val)
    }
}

fn accounting_ok() {
    unsafe {
        assert!(LIVE == 0, "every element dropped: live count must be zero");
        assert!(CREATED[0] == DROPPED[0], "each element dropped exactly once");
        assert!(CREATED[1] == DROPPED[1], "each element dropped exactly once");
        assert!(CREATED[2] == DROPPED[2], "each element dropped exactly once");
        assert!(CREATED[3] == DROPPED[3], "each element dropped exactly once");
        assert!(CREATED[7] == DROPPED[7], "each element dropped exactly once");
    }
}

/// Build an inline vector of symbolic length n <= N with symbolic values; returns the model.
fn build<const N: usize>(n: usize, vals: &[u8; 4]) -> SmallVec<Tr, N> {
    let mut v: SmallVec<Tr, N> = SmallVec::new();
    let mut i = 0;
    while i < n {
        v.push(Tr::new(i as u8, vals[i]));
        i += 1;
    }
    v
}

fn check_contents<const N: usize>(v: &SmallVec<Tr, N>, ids: &[u8], n: usize) {
    let s = v.as_slice();
    assert!(s.len() == n);
    let mut i = 0;
    while i < n {
        assert!(s[i].id == ids[i]);
        i += 1;
    }
}

macro_rules! inline_harnesses {
    ($modname:ident, $N:expr, $unw:expr) => {
        mod $modname {
            use super::*;
            const N: usize = $N;

            #[kani::proof]
            #[kani::unwind($unw)]
            fn push_and_drop() {
                let n: usize = kani::any();
                kani::assume(n <= N);
                let vals: [u8; 4] = kani::any();
                let v = build::<N>(n, &vals);
                let ids = [0u8, 1, 2, 3];
                check_contents(&v, &ids, n);
                kani::cover!(n == N);
                drop(v);
                accounting_ok();
            }

            #[kani::proof]
            #[kani::unwind($unw)]
            fn retain() {
                let n: usize = kani::any();
                kani::assume(n <= N);
                let vals: [u8; 4] = kani::any();
                let mut v = build::<N>(n, &vals);
                let mask: u8 = kani::any();
                v.retain(|t| (mask >> t.id) & 1 == 1);
                let mut ids = [0u8; 4];
                let mut m = 0;
                let mut i = 0;
                while i < n {
                    if (mask >> i) & 1 == 1 {
                        ids[m] = i as u8;
                        m += 1;
                    }
                    i += 1;
                }
                check_contents(&v, &ids, m);
                kani::cover!(n == N && m < n);
                drop(v);
                accounting_ok();
            }

            #[kani::proof]
            #[kani::unwind($unw)]
            fn retain_mut() {
                let n: usize = kani::any();
                kani::assume(n <= N);
                let vals: [u8; 4] = kani::any();
                let mut v = build::<N>(n, &vals);
                let mask: u8 = kani::any();
                v.retain_mut(|t| {
                    t.val = t.val.wrapping_add(1);
                    (mask >> t.id) & 1 == 1
                });
                let mut ids = [0u8; 4];
                let mut m = 0;
                let mut i = 0;
                while i < n {
                    if (mask >> i) & 1 == 1 {
                        ids[m] = i as u8;
                        m += 1;
                    }
                    i += 1;
                }
                check_contents(&v, &ids, m);
                let mut k = 0;
                while k < m {
                    assert!(v.as_slice()[k].val == vals[ids[k] as usize].wrapping_add(1));
                    k += 1;
                }
                drop(v);
                accounting_ok();
            }

            #[kani::proof]
            #[kani::unwind($unw)]
            fn dedup() {
                let n: usize = kani::any();
                kani::assume(n <= N);
                let vals: [u8; 4] = kani::any();
                let mut v = build::<N>(n, &vals);
                v.dedup();
                // model: keep i if i == 0 or vals[i] != last kept value
                let mut ids = [0u8; 4];
                let mut m = 0;
                let mut i = 0;
                while i < n {
                    if m == 0 || vals[i] != vals[ids[m - 1] as usize] {
                        ids[m] = i as u8;
                        m += 1;
                    }
                    i += 1;
                }
                check_contents(&v, &ids, m);
                kani::cover!(m < n);
                drop(v);
                accounting_ok();
            }

            #[kani::proof]
            #[kani::unwind($unw)]
            fn clear_then_reuse() {
                let n: usize = kani::any();
                kani::assume(n <= N);
                let vals: [u8; 4] = kani::any();
                let mut v = build::<N>(n, &vals);
                v.clear();
                assert!(v.as_slice().len() == 0);
                v.push(Tr::new(7, 1));
                assert!(v.as_slice().len() == 1 && v.as_slice()[0].id == 7);
                drop(v);
                accounting_ok();
            }

            #[kani::proof]
            #[kani::unwind($unw)]
            fn clone_eq_cmp() {
                let n: usize = kani::any();
                kani::assume(n <= N);
                let vals: [u8; 4] = kani::any();
                let v = build::<N>(n, &vals);
                let w = v.clone();
                assert!(v == w);
                assert!(v.cmp(&w) == core::cmp::Ordering::Equal);
                let ids = [0u8, 1, 2, 3];
                check_contents(&w, &ids, n);
                drop(v);
                drop(w);
                accounting_ok();
            }

            #[kani::proof]
            #[kani::unwind($unw)]
            fn into_iter_partial() {
                let n: usize = kani::any();
                kani::assume(n <= N);
                let vals: [u8; 4] = kani::any();
                let v = build::<N>(n, &vals);
                let j: usize = kani::any();
                kani::assume(j <= n);
                let mut it = v.into_iter();
                let mut k = 0;
                while k < j {
                    let e = it.next();
                    assert!(e.is_some());
                    assert!(e.unwrap().id == k as u8);
                    k += 1;
                }
                kani::cover!(j < n);
                if j == n {
                    assert!(it.next().is_none());
                }
                drop(it);
                accounting_ok();
            }

            #[kani::proof]
            #[kani::unwind($unw)]
            fn iter_and_iter_mut() {
                let n: usize = kani::any();
                kani::assume(n <= N);
                let vals: [u8; 4] = kani::any();
                let mut v = build::<N>(n, &vals);
                let mut c = 0usize;
                for e in &v {
                    assert!(e.id == c as u8);
                    c += 1;
                }
                assert!(c == n);
                for e in &mut v {
                    e.val = e.val.wrapping_add(3);
                }
                let mut k = 0;
                while k < n {
                    assert!(v[k].val == vals[k].wrapping_add(3));
                    k += 1;
                }
                drop(v);
                accounting_ok();
            }

            #[kani::proof]
            #[kani::unwind($unw)]
            fn slice_mut_swap_reverse() {
                // sorting goes through DerefMut to std's slice code; what SmallVec contributes is the
                // mutable slice view: permuting through it must neither lose nor duplicate elements
                let n: usize = kani::any();
                kani::assume(n <= N);
                let vals: [u8; 4] = kani::any();
                let mut v = build::<N>(n, &vals);
                assert!(v.as_slice_mut().len() == n);
                if n >= 2 {
                    v.as_slice_mut().swap(0, n - 1);
                    assert!(v[0].id == (n - 1) as u8 && v[n - 1].id == 0);
                }
                drop(v);
                accounting_ok();
            }
        }
    };
}

inline_harnesses!(n1, 1, 4);
inline_harnesses!(n2, 2, 5);

/// Must-fail twin: the accounting assertions are reachable and can fail.
#[kani::proof]
#[kani::unwind(4)]
fn vacuity_twin_must_fail() {
    let vals: [u8; 4] = kani::any();
    let v = build::<1>(1, &vals);
    core::mem::forget(v);
    accounting_ok();
}

// ---- boundary crossing (inline -> heap), concrete lengths, symbolic values/predicates ----

macro_rules! boundary_harnesses {
    ($modname:ident, $N:expr, $len:expr, $unw:expr) => {
        mod $modname {
            use super::*;
            const N: usize = $N;
            const LEN: usize = $len;

            fn build_len(vals: &[u8; 4]) -> SmallVec<Tr, N> {
                let mut v: SmallVec<Tr, N> = SmallVec::new();
                let mut i = 0;
                while i < LEN {
                    v.push(Tr::new(i as u8, vals[i]));
                    i += 1;
                }
                v
            }

            #[kani::proof]
            #[kani::unwind($unw)]
            fn promote_and_drop() {
                let vals: [u8; 4] = kani::any();
                let v = build_len(&vals);
                let ids = [0u8, 1, 2, 3];
                check_contents(&v, &ids, LEN);
                drop(v);
                accounting_ok();
            }

            #[kani::proof]
            #[kani::unwind($unw)]
            fn promote_retain() {
                let vals: [u8; 4] = kani::any();
                let mut v = build_len(&vals);
                let mask: u8 = kani::any();
                v.retain(|t| (mask >> t.id) & 1 == 1);
                let mut ids = [0u8; 4];
                let mut m = 0;
                let mut i = 0;
                while i < LEN {
                    if (mask >> i) & 1 == 1 {
                        ids[m] = i as u8;
                        m += 1;
                    }
                    i += 1;
                }
                check_contents(&v, &ids, m);
                // heap-backed with short contents -> clone goes back to the inline representation
                let w = v.clone();
                check_contents(&w, &ids, m);
                // same contents, different representation histories: still equal, as for Vec
                assert!(v == w);
                assert!(w == v);
                assert!(v.cmp(&w) == core::cmp::Ordering::Equal);
                drop(w);
                drop(v);
                accounting_ok();
            }

            #[kani::proof]
            #[kani::unwind($unw)]
            fn promote_into_iter_partial() {
                let vals: [u8; 4] = kani::any();
                let v = build_len(&vals);
                let j: usize = kani::any();
                kani::assume(j <= LEN);
                let mut it = v.into_iter();
                let mut k = 0;
                while k < j {
                    assert!(it.next().unwrap().id == k as u8);
                    k += 1;
                }
                drop(it);
                accounting_ok();
            }
        }
    };
}

boundary_harnesses!(b1, 1, 2, 6);
boundary_harnesses!(b2, 2, 3, 7);
