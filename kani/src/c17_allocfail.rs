//! C17: tape growth when the allocator fails.  `alloc_zeroed` is stubbed to return null on
//! the k-th request (k symbolic); `handle_alloc_error` is stubbed as the clean-abort marker.
//! CBMC's pointer checks then decide whether any path dereferences / copies into a pointer
//! that is not a live allocation.
use hpbf::runtime::Memory;
use std::alloc::Layout;

static mut FAIL_AT: u8 = 0;
static mut REQUESTS: u8 = 0;

pub unsafe fn failing_alloc_zeroed(layout: Layout) -> *mut u8 {
    REQUESTS += 1;
    if REQUESTS == FAIL_AT {
        core::ptr::null_mut()
    } else {
        let p = std::alloc::alloc(layout);
        if !p.is_null() {
            core::ptr::write_bytes(p, 0, layout.size());
        }
        p
    }
}

pub fn clean_abort(_layout: Layout) -> ! {
    // the allocation-failure abort: execution ends here
    kani::assume(false);
    loop {}
}

fn any_in(lo: isize, hi: isize) -> isize {
    let v: isize = kani::any();
    kani::assume(v >= lo && v <= hi);
    v
}

#[kani::proof]
#[kani::unwind(8)]
#[kani::stub(std::alloc::alloc_zeroed, failing_alloc_zeroed)]
#[kani::stub(std::alloc::handle_alloc_error, clean_abort)]
fn memory_growth_failure() {
    unsafe {
        FAIL_AT = kani::any();
        kani::assume(FAIL_AT >= 1 && FAIL_AT <= 3);
        REQUESTS = 0;
    }
    let mut mem = Memory::<u8>::new();
    // up to three growth requests in either direction / both at once
    let o1 = any_in(-4, 4);
    mem.write(o1, 1);
    let o2 = any_in(-8, 8);
    mem.write(o2, 2);
    let a = any_in(-12, 0);
    let b = any_in(1, 12);
    mem.make_accessible(a, b);
    let o3 = any_in(-12, 11);
    kani::assume(o3 >= a && o3 < b);
    mem.write(o3, 3);
    kani::cover!(unsafe { REQUESTS >= 2 }, "a later growth request was reached");
    let r = mem.read(o3);
    assert!(r == 3);
}

/// Same history with an allocator that never fails: the harness itself is sound
/// (no spurious pointer failures) and reaches the end.
#[kani::proof]
#[kani::unwind(8)]
#[kani::stub(std::alloc::alloc_zeroed, failing_alloc_zeroed)]
#[kani::stub(std::alloc::handle_alloc_error, clean_abort)]
fn memory_growth_no_failure_reaches_end() {
    unsafe {
        FAIL_AT = 0;
        REQUESTS = 0;
    }
    let mut mem = Memory::<u8>::new();
    let o1 = any_in(-4, 4);
    mem.write(o1, 1);
    let o2 = any_in(-8, 8);
    mem.write(o2, 2);
    kani::cover!(true, "end reached");
    assert!(mem.read(o2) == 2);
}

/// Vacuity twin: with a failing allocator and NO abort marker reached the final assertion
/// must be reachable and fail.
#[kani::proof]
#[kani::unwind(8)]
#[kani::stub(std::alloc::alloc_zeroed, failing_alloc_zeroed)]
#[kani::stub(std::alloc::handle_alloc_error, clean_abort)]
fn vacuity_twin_must_fail() {
    unsafe {
        FAIL_AT = 0;
        REQUESTS = 0;
    }
    let mut mem = Memory::<u8>::new();
    mem.write(1, 1);
    assert!(mem.read(1) == 2);
}
