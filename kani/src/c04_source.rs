//! C04 (source-text sub-claim): the in-place interpreter on EVERY ASCII source of <= 4 bytes:
//! no panic other than the documented LoopNotOpened error, no out-of-object access, and the
//! final tape window equals an in-harness reference that skips non-command bytes.
use hpbf::exec::{Executable, Executor, InplaceInterpreter};
use hpbf::runtime::Context;

const BUDGET: usize = 2;

fn reference<const LEN: usize>(src: &[u8], n: usize) -> Option<([u8; 9], isize, bool)> {
    // returns (tape window [-4,4], pointer, finished); None when an unmatched ']' is met
    let mut tape = [0u8; 9];
    let mut p: isize = 0;
    let mut pc = 0usize;
    let mut stack = [0usize; LEN];
    let mut sp = 0usize;
    let mut budget = BUDGET;
    while pc < n {
        let c = src[pc];
        pc += 1;
        if c == b'+' {
            tape[(p + 4) as usize] = tape[(p + 4) as usize].wrapping_add(1);
        } else if c == b'-' {
            tape[(p + 4) as usize] = tape[(p + 4) as usize].wrapping_sub(1);
        } else if c == b'>' {
            p += 1;
        } else if c == b'<' {
            p -= 1;
        } else if c == b'[' {
            if tape[(p + 4) as usize] == 0 {
                let mut depth = 0;
                while pc < n {
                    if src[pc] == b']' {
                        if depth == 0 {
                            break;
                        }
                        depth -= 1;
                    } else if src[pc] == b'[' {
                        depth += 1;
                    }
                    pc += 1;
                }
                pc += 1;
            } else {
                stack[sp] = pc;
                sp += 1;
            }
        } else if c == b']' {
            if budget == 0 {
                return Some((tape, p, false));
            }
            budget -= 1;
            if sp == 0 {
                return None;
            }
            sp -= 1;
            if tape[(p + 4) as usize] != 0 {
                pc = stack[sp];
                sp += 1;
            }
        }
    }
    Some((tape, p, true))
}

#[kani::proof]
#[kani::unwind(22)]
fn every_ascii_source_up_to_4_bytes() {
    every_source::<4>()
}

#[kani::proof]
#[kani::unwind(18)]
fn every_ascii_source_up_to_3_bytes() {
    every_source::<3>()
}

#[kani::proof]
#[kani::unwind(14)]
fn every_ascii_source_up_to_2_bytes() {
    every_source::<2>()
}

fn every_source<const LEN: usize>() {
    let bytes: [u8; LEN] = kani::any();
    let n: usize = kani::any();
    kani::assume(n <= LEN);
    let mut i = 0;
    while i < LEN {
        kani::assume(bytes[i] < 128);
        // I/O is not part of this sub-claim
        kani::assume(bytes[i] != b'.' && bytes[i] != b',');
        i += 1;
    }
    let src = core::str::from_utf8(&bytes[..n]).unwrap();
    let exec = InplaceInterpreter::<u8>::create(src, 0).unwrap();
    let mut cxt = Context::<u8>::without_io();
    cxt.budget = BUDGET;
    let res = exec.execute_limited(&mut cxt);
    match reference::<LEN>(&bytes, n) {
        None => assert!(res.is_err(), "an unmatched ']' is reported as an error"),
        Some((tape, p, finished)) => {
            assert!(res.is_ok());
            assert!(res.unwrap() == finished);
            let mut l: isize = -4;
            while l <= 4 {
                assert!(cxt.memory.read(l - p) == tape[(l + 4) as usize]);
                l += 1;
            }
            kani::cover!(finished && tape[4] == 2);
        }
    }
}
