//! C09: the real `runtime::Memory<C>` against a map model.  Inductive formulation: an
//! arbitrary pre-state reached through the public API, then ONE arbitrary operation,
//! then every logical cell of a window is read back.
use hpbf::runtime::Memory;
use hpbf::CellType;

const W: isize = 7; // logical window [-W, W]
const WN: usize = 15;

fn any_in(lo: isize, hi: isize) -> isize {
    let v: isize = kani::any();
    kani::assume(v >= lo && v <= hi);
    v
}

struct Model<C: CellType> {
    cells: [C; WN],
    pos: isize,
}

impl<C: CellType> Model<C> {
    fn set(&mut self, off: isize, v: C) {
        let l = self.pos + off;
        assert!(l >= -W && l <= W);
        self.cells[(l + W) as usize] = v;
    }
    fn get(&self, off: isize) -> C {
        let l = self.pos + off;
        if l >= -W && l <= W {
            self.cells[(l + W) as usize]
        } else {
            C::ZERO
        }
    }
}

fn read_back<C: CellType>(mem: &Memory<C>, model: &Model<C>) {
    let mut l = -W;
    while l <= W {
        let got = mem.read(l - model.pos);
        assert!(got == model.cells[(l + W) as usize], "read returns the value most recently written (0 if never written)");
        l += 1;
    }
}

/// Arbitrary reachable pre-state: mov, make_accessible, two writes, mov.
fn pre_state<C: CellType>(mk: fn(u8) -> C) -> (Memory<C>, Model<C>) {
    let mut mem = Memory::<C>::new();
    let mut model = Model { cells: [C::ZERO; WN], pos: 0 };
    let o0 = any_in(-2, 2);
    mem.mov(o0);
    model.pos += o0;
    if kani::any() {
        let a = any_in(-2, 1);
        let b = any_in(-1, 2);
        kani::assume(a < b);
        mem.make_accessible(a, b);
    }
    if kani::any() {
        let off = any_in(-2, 2);
        let v = mk(kani::any());
        mem.write(off, v);
        model.set(off, v);
    }
    let o1 = any_in(-1, 1);
    mem.mov(o1);
    model.pos += o1;
    (mem, model)
}

fn step_write<C: CellType>(mk: fn(u8) -> C) {
    let (mut mem, mut model) = pre_state(mk);
    let off = any_in(-2, 2);
    let v = mk(kani::any());
    let before = mem.check(off);
    mem.write(off, v);
    model.set(off, v);
    assert!(mem.check(off), "a written cell is accessible afterwards");
    kani::cover!(!before, "write that had to grow the tape");
    read_back(&mem, &model);
}

fn step_make_accessible<C: CellType>(mk: fn(u8) -> C) {
    let (mut mem, model) = pre_state(mk);
    // asymmetric two-sided requests included: the placement of the old block when room is
    // needed below and above at once depends on which side needs more
    let a = any_in(-4, 1);
    let b = any_in(-1, 6);
    kani::assume(a < b);
    let below = !mem.check(a);
    let above = !mem.check(b - 1);
    mem.make_accessible(a, b);
    let mut i = a;
    while i < b {
        assert!(mem.check(i), "a requested range is reported accessible afterwards");
        i += 1;
    }
    kani::cover!(below && above, "growth below and above at once");
    kani::cover!(below && !above, "growth below only");
    kani::cover!(!below && above, "growth above only");
    read_back(&mem, &model);
}

fn step_nonalloc<C: CellType>(mk: fn(u8) -> C) {
    let (mut mem, mut model) = pre_state(mk);
    // accessibility of a probe cell and the pointer must not change under read / check
    let probe = any_in(-3, 3);
    let acc_before = mem.check(probe);
    let p_before = mem.current_ptr();
    let off = any_in(-3, 3);
    let r = mem.read(off);
    assert!(r == model.get(off));
    let _ = mem.check(off);
    assert!(mem.check(probe) == acc_before, "reads and bounds queries never allocate");
    assert!(mem.current_ptr() == p_before);
    // mov and back
    let m = any_in(-2, 2);
    mem.mov(m);
    model.pos += m;
    read_back(&mem, &model);
}

fn step_far_move<C: CellType>(mk: fn(u8) -> C) {
    let (mut mem, model) = pre_state(mk);
    let far: isize = kani::any();
    kani::assume(far > (1 << 40) || far < -(1 << 40));
    kani::assume(far < (1 << 62) && far > -(1 << 62));
    mem.mov(far);
    assert!(mem.read(0) == C::ZERO, "a cell far outside the allocation reads as zero");
    assert!(!mem.check(0));
    mem.mov(-far);
    read_back(&mem, &model);
}

fn step_ptr_roundtrip<C: CellType>(mk: fn(u8) -> C) {
    let (mut mem, model) = pre_state(mk);
    // in-range cells only (the harness never forms an out-of-allocation pointer itself)
    let off = any_in(-2, 2);
    kani::assume(mem.check(off) && mem.check(0));
    let p0 = mem.current_ptr();
    mem.mov(off);
    let p1 = mem.current_ptr();
    assert!(mem.check_ptr(p1));
    mem.set_current_ptr(p0);
    assert!(mem.current_ptr() == p0);
    read_back(&mem, &model);
}

macro_rules! instances {
    ($m:ident, $t:ty, $mk:expr) => {
        mod $m {
            use super::*;
            fn mk(b: u8) -> $t {
                $mk(b)
            }
            #[kani::proof]
            #[kani::unwind(17)]
            fn write() {
                step_write::<$t>(mk);
            }
            #[kani::proof]
            #[kani::unwind(17)]
            fn make_accessible() {
                step_make_accessible::<$t>(mk);
            }
            #[kani::proof]
            #[kani::unwind(17)]
            fn nonalloc_ops() {
                step_nonalloc::<$t>(mk);
            }
            #[kani::proof]
            #[kani::unwind(17)]
            fn far_move() {
                step_far_move::<$t>(mk);
            }
            #[kani::proof]
            #[kani::unwind(17)]
            fn ptr_roundtrip() {
                step_ptr_roundtrip::<$t>(mk);
            }
        }
    };
}

instances!(w8, u8, |b: u8| b);
instances!(w16, u16, |b: u8| (b as u16) * 257);
instances!(w32, u32, |b: u8| (b as u32) * 0x01010101);
instances!(w64, u64, |b: u8| (b as u64) * 0x0101010101010101);

#[kani::proof]
#[kani::unwind(17)]
fn vacuity_twin_must_fail() {
    let (mut mem, mut model) = pre_state::<u8>(|b| b);
    mem.write(1, 7);
    // model deliberately not updated
    kani::assume(model.get(1) != 7);
    read_back(&mem, &model);
}
