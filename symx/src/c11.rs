//! C11 driver: the bytecode exactly as held by the executors (hook accessors), for every
//! program x width x level x generator setting, is checked structurally and executed by
//! the symbolic validator (E4) on every explored path.

use crate::bcval::{self, Finding};
use crate::engine::{self, explore, HashMode, IoCfg, Limits, PathEnd};
use crate::product::{compare, concretise, run_ref, Cmp};
use crate::refbf::RefStatus;
use crate::solver::{Kind, Stats};
use hpbf::bc::Program;
use hpbf::exec::{BaseJitCompiler, BcInterpreter, Executor};
use hpbf::CellType;
use serde_json::{json, Value};
use std::panic::{catch_unwind, AssertUnwindSafe};
use std::sync::atomic::{AtomicUsize, Ordering};
use std::sync::Mutex;
use std::time::{Duration, Instant};

#[derive(Clone, Debug)]
pub struct C11Case {
    pub program: String,
    pub width: u32,
    pub level: u32,
    pub setting: &'static str,
    pub input: Vec<u8>,
    pub at: usize,
    pub what: String,
}

impl C11Case {
    pub fn to_json(&self) -> Value {
        json!({"kind": "c11", "property": "C11", "program": self.program, "width": self.width, "level": self.level, "setting": self.setting, "input": self.input, "at": self.at, "what": self.what})
    }
}

#[derive(Default)]
pub struct C11Out {
    pub jobs: usize,
    pub bytecode_programs: usize,
    pub instructions: usize,
    pub paths: usize,
    pub validator_runs: usize,
    pub cross_validated: usize,
    pub structural_checks: usize,
    pub decisions: u64,
    pub truncated: usize,
    pub inconclusive: Vec<String>,
    pub findings: Vec<C11Case>,
    pub stats: Stats,
    pub sample: Option<Value>,
    pub nontrivial: usize,
}

struct Built<C: CellType> {
    level: u32,
    setting: &'static str,
    regs: usize,
    fuse: bool,
    prog: Program<C>,
}

fn clone_prog<C: CellType>(p: &Program<C>) -> Program<C> {
    Program { temps: p.temps, min_accessed: p.min_accessed, max_accessed: p.max_accessed, live: p.live.clone(), insts: p.insts.clone() }
}

fn build_all<C: CellType>(code: &str, levels: &[u32], out: &mut C11Out) -> Vec<Built<C>> {
    let mut v = Vec::new();
    for &l in levels {
        let r = catch_unwind(AssertUnwindSafe(|| {
            let a = BcInterpreter::<C>::create(code, l).ok().map(|e| clone_prog(e.verif_bytecode()));
            let b = BaseJitCompiler::<C>::create(code, l).ok().map(|e| clone_prog(e.verif_bytecode()));
            (a, b)
        }));
        match r {
            Ok((a, b)) => {
                if let Some(p) = a {
                    v.push(Built { level: l, setting: "2 registers, fusion (bytecode interpreter)", regs: 2, fuse: true, prog: p });
                }
                if let Some(p) = b {
                    v.push(Built { level: l, setting: "11 registers, no fusion (baseline JIT)", regs: 11, fuse: false, prog: p });
                }
            }
            Err(_) => out.inconclusive.push(format!("bytecode generation panicked at level {} (a C13 matter): {}", l, crate::report::short(code))),
        }
    }
    v
}

/// Scheduling aid for the pre-screen: any structural finding or static suspicion in the bytecode
/// of levels 0..3, both generator settings, 8-bit cells.
pub fn static_screen(code: &str) -> bool {
    let mut out = C11Out::default();
    let built = build_all::<u8>(code, &[0, 1, 2, 3], &mut out);
    built.iter().any(|b| !bcval::structural(&b.prog, b.regs, b.fuse).is_empty() || bcval::static_suspect(&b.prog, b.regs))
}

pub struct Cfg {
    pub limits: Limits,
    pub ref_steps: u64,
    pub timeout_ms: u64,
    pub eof_forks: u32,
    pub job_cap: Duration,
    pub levels: Vec<u32>,
}

fn job<C: CellType>(code: &str, width: u32, cfg: &Cfg) -> C11Out {
    let mut out = C11Out::default();
    out.jobs = 1;
    engine::init(Kind::Z3, cfg.timeout_ms, cfg.limits.clone(), HashMode::Concrete, IoCfg { eof_forks: cfg.eof_forks, ..Default::default() });
    engine::with(|c| {
        c.width = width as u8;
        c.job_deadline = Some(Instant::now() + cfg.job_cap);
    });
    let built = build_all::<C>(code, &cfg.levels, &mut out);
    out.bytecode_programs = built.len();
    for b in &built {
        out.instructions += b.prog.insts.len();
        out.structural_checks += 1;
        for f in bcval::structural(&b.prog, b.regs, b.fuse) {
            out.findings.push(C11Case { program: code.to_string(), width, level: b.level, setting: b.setting, input: vec![], at: f.at, what: f.what });
        }
    }
    let w = width as u8;
    let ex = explore(|| {
        let r = run_ref(w, code, cfg.ref_steps, false, false, false);
        let mut found: Vec<(usize, Finding, Vec<u8>)> = Vec::new();
        let mut runs = 0usize;
        let mut crossed = 0usize;
        let mut inc: Vec<String> = Vec::new();
        for (bi, b) in built.iter().enumerate() {
            engine::with(|c| c.ops = 0);
            let run = bcval::run(&b.prog, w, b.regs, cfg.limits.max_ops);
            runs += 1;
            let wit = engine::with(|c| c.wit.clone());
            let reads = run.events.iter().filter(|e| matches!(e, engine::Event::In)).count() as u32;
            for f in run.findings {
                found.push((bi, f, concretise(&wit, reads).input));
            }
            if run.halted && r.run.status == RefStatus::Halted {
                match compare(&r.events, &run.events) {
                    Cmp::Equal => crossed += 1,
                    Cmp::Unknown(s) => inc.push(format!("solver: {}", s)),
                    other => inc.push(format!("validator semantics and reference disagree on {:?} L{} [{}] ({}): either the validator is wrong or the bytecode is (C02/C03 decide that)", crate::report::short(code), b.level, b.setting, match other { Cmp::Differ(_, d) => d, o => format!("{:?}", o) })),
                }
            }
        }
        (found, runs, crossed, inc)
    });
    out.paths = ex.paths.len();
    for p in ex.paths {
        out.decisions += p.decisions as u64;
        match p.end {
            PathEnd::Done((found, runs, crossed, inc)) => {
                out.validator_runs += runs;
                out.cross_validated += crossed;
                out.inconclusive.extend(inc);
                for (bi, f, input) in found {
                    let b = &built[bi];
                    if !out.findings.iter().any(|c| c.level == b.level && c.setting == b.setting && c.at == f.at) {
                        out.findings.push(C11Case { program: code.to_string(), width, level: b.level, setting: b.setting, input, at: f.at, what: f.what });
                    }
                }
            }
            PathEnd::Abort(engine::Abort::Truncated(_)) => out.truncated += 1,
            PathEnd::Abort(engine::Abort::Inconclusive(s)) => out.inconclusive.push(s),
            PathEnd::Panic(s) => out.inconclusive.push(format!("validator panic: {}", s)),
        }
    }
    out.stats = engine::take_stats();
    if out.paths >= 2 || out.stats.queries > 0 {
        out.nontrivial = 1;
    }
    if out.sample.is_none() && !built.is_empty() {
        let b = &built[built.len() - 1];
        out.sample = Some(json!({"program": crate::report::short(code), "width": width, "level": b.level, "setting": b.setting, "bytecode": format!("{:?}", b.prog).lines().take(12).collect::<Vec<_>>(), "paths": out.paths}));
    }
    out
}

pub fn run_job(code: &str, width: u32, cfg: &Cfg) -> C11Out {
    match width {
        8 => job::<u8>(code, width, cfg),
        16 => job::<u16>(code, width, cfg),
        32 => job::<u32>(code, width, cfg),
        _ => job::<u64>(code, width, cfg),
    }
}

pub fn merge(a: &mut C11Out, b: C11Out) {
    a.jobs += b.jobs;
    a.bytecode_programs += b.bytecode_programs;
    a.instructions += b.instructions;
    a.paths += b.paths;
    a.validator_runs += b.validator_runs;
    a.cross_validated += b.cross_validated;
    a.structural_checks += b.structural_checks;
    a.decisions += b.decisions;
    a.truncated += b.truncated;
    a.inconclusive.extend(b.inconclusive);
    a.findings.extend(b.findings);
    a.stats.add(&b.stats);
    a.nontrivial += b.nontrivial;
    if a.sample.is_none() || (b.paths >= 2 && a.sample.as_ref().map_or(true, |s| s["paths"].as_u64().unwrap_or(0) < 2)) {
        if b.sample.is_some() {
            a.sample = b.sample;
        }
    }
}

pub fn run_all(jobs: &[(String, u32)], cfg: &Cfg, threads: usize, deadline: Instant) -> (C11Out, usize) {
    let next = AtomicUsize::new(0);
    let total = Mutex::new(C11Out::default());
    let skipped = AtomicUsize::new(0);
    std::thread::scope(|s| {
        for _ in 0..threads {
            std::thread::Builder::new()
                .stack_size(1 << 28)
                .spawn_scoped(s, || loop {
                    let i = next.fetch_add(1, Ordering::SeqCst);
                    if i >= jobs.len() {
                        break;
                    }
                    if Instant::now() > deadline {
                        skipped.fetch_add(1, Ordering::SeqCst);
                        continue;
                    }
                    let o = run_job(&jobs[i].0, jobs[i].1, cfg);
                    merge(&mut total.lock().unwrap(), o);
                })
                .unwrap();
        }
    });
    (total.into_inner().unwrap(), skipped.load(Ordering::SeqCst))
}

/// Concrete replay of a finding: the validator follows the given input only.
pub fn replay(v: &Value) -> i32 {
    let code = v["program"].as_str().unwrap_or("").to_string();
    let width = v["width"].as_u64().unwrap_or(8) as u32;
    let level = v["level"].as_u64().unwrap_or(0) as u32;
    let setting = v["setting"].as_str().unwrap_or("").to_string();
    let at = v["at"].as_u64().unwrap_or(0) as usize;
    let input: Vec<u8> = v["input"].as_array().map(|a| a.iter().map(|x| x.as_u64().unwrap_or(0) as u8).collect()).unwrap_or_default();
    let cfg = Cfg { limits: Limits { max_decisions: 100_000, max_paths: 1, max_ops: 5_000_000 }, ref_steps: 1_000_000, timeout_ms: 10_000, eof_forks: 0, job_cap: Duration::from_secs(60), levels: vec![level] };
    // fix the input by running the job on a single path seeded with the witness
    engine::install_panic_hook();
    let out = match width {
        8 => replay_w::<u8>(&code, width, &cfg, &input),
        16 => replay_w::<u16>(&code, width, &cfg, &input),
        32 => replay_w::<u32>(&code, width, &cfg, &input),
        _ => replay_w::<u64>(&code, width, &cfg, &input),
    };
    for f in out {
        if f.0 == setting && (f.1.at == at) {
            println!("REPRODUCED property=C11 L{} w{} [{}] program={:?} input={:?}: instruction {}: {}", level, width, setting, crate::report::short(&code), input, f.1.at, f.1.what);
            return 1;
        }
    }
    println!("NOT-REPRODUCED: no such finding on the concrete run");
    0
}

fn replay_w<C: CellType>(code: &str, width: u32, cfg: &Cfg, input: &[u8]) -> Vec<(String, Finding)> {
    let mut dummy = C11Out::default();
    engine::init(Kind::Z3, cfg.timeout_ms, cfg.limits.clone(), HashMode::Concrete, IoCfg { eof_forks: 0, ..Default::default() });
    engine::with(|c| {
        c.width = width as u8;
        c.job_deadline = None;
    });
    let built = build_all::<C>(code, &cfg.levels, &mut dummy);
    let mut res = Vec::new();
    for b in &built {
        for f in bcval::structural(&b.prog, b.regs, b.fuse) {
            res.push((b.setting.to_string(), f));
        }
    }
    let wit = crate::term::Witness { inputs: input.to_vec(), ..Default::default() };
    let ex = engine::explore_from(wit, || {
        let mut v = Vec::new();
        for b in &built {
            let run = bcval::run(&b.prog, width as u8, b.regs, cfg.limits.max_ops);
            for f in run.findings {
                v.push((b.setting.to_string(), f));
            }
        }
        v
    });
    if let Some(p) = ex.paths.into_iter().next() {
        if let PathEnd::Done(v) = p.end {
            res.extend(v);
        }
    }
    res
}
