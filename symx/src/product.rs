//! Product exploration: reference (refbf over terms) and subject (real hpbf code over
//! `SymCell`) run on the same path; their event logs are compared by the solver.

use crate::engine::{self, decide, decide_free, feasible, with, Abort, Event};
use crate::io::{LogReader, LogWriter, FREE_EOF_BASE, FREE_INFAIL_BASE, FREE_OUTFAIL_BASE};
use crate::refbf::{self, RefDom, RefRun};
use crate::solver::Answer;
use crate::subject::{self, Mode, Ret};
use crate::symcell::SymCell;
use crate::term::{Witness, T};
use hpbf::exec::Executable;

/// Symbolic value domain for refbf: values are term handles of width W.
pub struct SymDom {
    pub w: u8,
    pub events: Vec<Event>,
    pub reads: u32,
    pub writes: u32,
    pub eof_hit: bool,
    pub no_input: bool,
    pub no_output: bool,
}

impl SymDom {
    pub fn new(w: u8) -> Self {
        SymDom { w, events: vec![], reads: 0, writes: 0, eof_hit: false, no_input: false, no_output: false }
    }
}

impl RefDom for SymDom {
    type V = T;
    fn zero(&mut self) -> T {
        0
    }
    fn inc(&mut self, v: T) -> T {
        let w = self.w;
        with(|c| {
            let one = c.ar.konst(w, 1);
            c.ar.add(w, v, one)
        })
    }
    fn dec(&mut self, v: T) -> T {
        let w = self.w;
        with(|c| {
            let m1 = c.ar.konst(w, u64::MAX);
            c.ar.add(w, v, m1)
        })
    }
    fn is_zero(&mut self, v: T) -> bool {
        let w = self.w;
        let l = with(|c| c.ar.eq_lit(w, v, 0));
        decide(l)
    }
    fn input(&mut self) -> Option<T> {
        let k = self.reads;
        self.reads += 1;
        if self.no_input {
            return None;
        }
        let (eof_forks, in_forks) = with(|c| (c.io.eof_forks, c.io.in_fault_forks));
        if k < in_forks && decide_free(FREE_INFAIL_BASE + k) {
            self.events.push(Event::InFail);
            return None;
        }
        self.events.push(Event::In);
        let eof = if self.eof_hit {
            true
        } else if k < eof_forks {
            decide_free(FREE_EOF_BASE + k)
        } else {
            false
        };
        if eof {
            self.eof_hit = true;
            return Some(0);
        }
        let w = self.w;
        Some(with(|c| c.ar.input(w, k)))
    }
    fn output(&mut self, v: T) -> bool {
        let k = self.writes;
        self.writes += 1;
        if self.no_output {
            return true;
        }
        let w = self.w;
        let t = with(|c| c.ar.trunc(8, v, w));
        let forks = with(|c| c.io.out_fault_forks);
        if k < forks && decide_free(FREE_OUTFAIL_BASE + k) {
            self.events.push(Event::OutFail(t));
            return false;
        }
        self.events.push(Event::Out(t));
        true
    }
    fn same(&mut self, a: T, b: T) -> bool {
        if a == b {
            return true;
        }
        let w = self.w;
        let l = with(|c| c.ar.eq_lit(w, a, b));
        match l {
            Err(b) => b,
            Ok(l) => match feasible(&[l.not()], None) {
                Answer::Unsat => true,
                _ => false,
            },
        }
    }
    fn reads(&self) -> u32 {
        self.reads
    }
    fn writes(&self) -> u32 {
        self.writes
    }
}

pub struct RefOutcome {
    pub run: RefRun,
    pub events: Vec<Event>,
}

pub fn run_ref(w: u8, code: &str, max_steps: u64, detect_div: bool, no_input: bool, no_output: bool) -> RefOutcome {
    let mut dom = SymDom::new(w);
    dom.no_input = no_input;
    dom.no_output = no_output;
    let run = refbf::run(&mut dom, code, max_steps, detect_div);
    RefOutcome { run, events: dom.events }
}

pub struct SubOutcome {
    pub ret: Ret,
    pub events: Vec<Event>,
    pub seam_errors: Vec<String>,
}

/// Run a real executor over SymCell on the current path.
pub fn run_sub<const B: u32>(exec: &dyn Executable<SymCell<B>>, mode: Mode, no_input: bool, no_output: bool) -> SubOutcome {
    with(|c| {
        c.reset_io();
        c.seam_errors.clear();
        c.width = B as u8;
        c.no_output = no_output;
    });
    let input: Option<Box<dyn std::io::Read>> = if no_input { None } else { Some(Box::new(LogReader)) };
    let output: Option<Box<dyn std::io::Write>> = if no_output { None } else { Some(Box::new(LogWriter)) };
    let ret = subject::run(exec, mode, input, output);
    let (events, seam_errors) = with(|c| (std::mem::take(&mut c.events), std::mem::take(&mut c.seam_errors)));
    SubOutcome { ret, events, seam_errors }
}

#[derive(Debug, Clone)]
pub enum Cmp {
    Equal,
    /// subject events are a proper prefix of the reference events (same kinds, equal values)
    SubIsPrefix,
    /// reference events are a proper prefix of the subject events
    RefIsPrefix,
    /// a difference, with a witness (model) exhibiting it and a description
    Differ(Witness, String),
    Unknown(String),
}

fn kind(e: &Event) -> u8 {
    match e {
        Event::In => 0,
        Event::Out(_) => 1,
        Event::OutFail(_) => 2,
        Event::InFail => 3,
    }
}

fn val(e: &Event) -> Option<T> {
    match e {
        Event::Out(t) | Event::OutFail(t) => Some(*t),
        _ => None,
    }
}

/// Compare two event logs on the current path.  Values are compared by the solver.
pub fn compare(reference: &[Event], subject: &[Event]) -> Cmp {
    let n = reference.len().min(subject.len());
    for i in 0..n {
        if kind(&reference[i]) != kind(&subject[i]) {
            let w = with(|c| c.wit.clone());
            return Cmp::Differ(w, format!("event {} kind differs: reference {:?}, subject {:?}", i, show_event(&reference[i]), show_event(&subject[i])));
        }
    }
    for i in 0..n {
        if let (Some(a), Some(b)) = (val(&reference[i]), val(&subject[i])) {
            if a == b {
                continue;
            }
            let l = with(|c| c.ar.eq_lit(8, a, b));
            match l {
                Err(true) => {}
                Err(false) => {
                    let w = with(|c| c.wit.clone());
                    return Cmp::Differ(w, format!("output byte at event {} differs: reference {}, subject {}", i, show_term(a), show_term(b)));
                }
                Ok(l) => {
                    let mut m = Witness::default();
                    match feasible(&[l.not()], Some(&mut m)) {
                        Answer::Unsat => {}
                        Answer::Sat => {
                            let cur = with(|c| c.wit.clone());
                            for (k, v) in cur.frees {
                                m.frees.entry(k).or_insert(v);
                            }
                            return Cmp::Differ(m, format!("output byte at event {} can differ: reference {}, subject {}", i, show_term(a), show_term(b)));
                        }
                        Answer::Unknown(s) => return Cmp::Unknown(s),
                    }
                }
            }
        }
    }
    if reference.len() == subject.len() {
        Cmp::Equal
    } else if subject.len() < reference.len() {
        Cmp::SubIsPrefix
    } else {
        Cmp::RefIsPrefix
    }
}

pub fn show_term(t: T) -> String {
    with(|c| c.ar.show(t))
}

pub fn show_event(e: &Event) -> String {
    match e {
        Event::In => "In".into(),
        Event::Out(t) => format!("Out({})", show_term(*t)),
        Event::OutFail(t) => format!("OutFail({})", show_term(*t)),
        Event::InFail => "InFail".into(),
    }
}

pub fn show_events(es: &[Event]) -> Vec<String> {
    es.iter().take(24).map(show_event).collect()
}

/// Concrete environment described by a witness: the input bytes actually delivered
/// (cut at the EOF position chosen on this path) and the injected fault positions.
#[derive(Clone, Debug, Default)]
pub struct ConcreteEnv {
    pub input: Vec<u8>,
    pub fail_read_at: Option<u32>,
    pub fail_write_at: Option<u32>,
}

pub fn concretise(w: &Witness, max_reads: u32) -> ConcreteEnv {
    let mut eof_at: Option<u32> = None;
    let mut fail_read_at = None;
    let mut fail_write_at = None;
    let mut keys: Vec<(&u32, &bool)> = w.frees.iter().collect();
    keys.sort();
    for (&k, &v) in keys {
        if !v {
            continue;
        }
        if k < FREE_INFAIL_BASE {
            let i = k - FREE_EOF_BASE;
            eof_at = Some(eof_at.map_or(i, |e: u32| e.min(i)));
        } else if k < FREE_OUTFAIL_BASE {
            let i = k - FREE_INFAIL_BASE;
            fail_read_at = Some(fail_read_at.map_or(i, |e: u32| e.min(i)));
        } else {
            let i = k - FREE_OUTFAIL_BASE;
            fail_write_at = Some(fail_write_at.map_or(i, |e: u32| e.min(i)));
        }
    }
    let n = eof_at.unwrap_or(max_reads.max(w.inputs.len() as u32));
    let mut input = Vec::new();
    for k in 0..n {
        input.push(w.input(k));
    }
    ConcreteEnv { input, fail_read_at, fail_write_at }
}

pub fn abort_inconclusive(s: String) -> ! {
    engine::abort(Abort::Inconclusive(s))
}
