//! The I/O seam: `LogReader` / `LogWriter` are handed to the real `Context`.
//! They log the events the properties talk about into the engine's event log and
//! carry the symbolic value across the `u8` interface via arm/park slots.

use crate::engine::{decide_free, with, Event};
use std::io::{self, Read, Write};

/// Free-boolean numbering for environment choices.
pub const FREE_EOF_BASE: u32 = 0; // "read k hits end of input"
pub const FREE_INFAIL_BASE: u32 = 10_000; // "read k fails"
pub const FREE_OUTFAIL_BASE: u32 = 20_000; // "write k is refused"

pub struct LogReader;
pub struct LogWriter;

impl Read for LogReader {
    fn read(&mut self, buf: &mut [u8]) -> io::Result<usize> {
        if buf.is_empty() {
            return Ok(0);
        }
        let (k, eof_forks, in_forks, eof_hit, faulted) = with(|c| (c.reads, c.io.eof_forks, c.io.in_fault_forks, c.eof_hit, c.faulted));
        if faulted {
            with(|c| c.seam_errors.push("input requested after an injected fault".into()));
        }
        with(|c| c.reads += 1);
        if k < in_forks && decide_free(FREE_INFAIL_BASE + k) {
            with(|c| {
                c.events.push(Event::InFail);
                c.faulted = true;
            });
            return Err(io::Error::new(io::ErrorKind::Other, "injected input failure"));
        }
        with(|c| c.events.push(Event::In));
        let eof = if eof_hit {
            true
        } else if k < eof_forks {
            decide_free(FREE_EOF_BASE + k)
        } else {
            false
        };
        if eof {
            with(|c| c.eof_hit = true);
            return Ok(0);
        }
        let v = with(|c| {
            if c.armed_input.is_some() {
                c.seam_errors.push("input byte produced while the previous one was not consumed".into());
            }
            c.armed_input = Some(k);
            c.wit.input(k)
        });
        buf[0] = v;
        Ok(1)
    }
}

impl Write for LogWriter {
    fn write(&mut self, buf: &[u8]) -> io::Result<usize> {
        if buf.is_empty() {
            return Ok(0);
        }
        let (k, forks, ok0, faulted) = with(|c| (c.writes, c.io.out_fault_forks, c.io.out_fault_ok0, c.faulted));
        if faulted {
            with(|c| c.seam_errors.push("output attempted after an injected fault".into()));
        }
        with(|c| c.writes += 1);
        let t = with(|c| c.parked_out.take());
        let t = match t {
            Some(t) => with(|c| c.ar.trunc(8, t, c.width)),
            None => {
                with(|c| c.seam_errors.push("output byte written without a parked cell value".into()));
                with(|c| c.ar.konst(8, buf[0] as u64))
            }
        };
        if k < forks && decide_free(FREE_OUTFAIL_BASE + k) {
            with(|c| {
                c.events.push(Event::OutFail(t));
                c.faulted = true;
            });
            if ok0 {
                return Ok(0);
            }
            return Err(io::Error::new(io::ErrorKind::Other, "injected output failure"));
        }
        with(|c| c.events.push(Event::Out(t)));
        Ok(1)
    }
    fn flush(&mut self) -> io::Result<()> {
        Ok(())
    }
}
