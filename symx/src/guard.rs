//! Guard-page allocator: while a thread has guard mode on, every `alloc_zeroed` block
//! (in hpbf exactly the tape and the threaded-interpreter context with its temporaries)
//! is placed flush against a PROT_NONE page (on the right or on the left), inside a large
//! reserved arena, so that any access outside the allocation faults.  Freed blocks
//! become PROT_NONE again (use-after-free faults too).  Everything else goes to the
//! system allocator.

use std::alloc::{GlobalAlloc, Layout, System};
use std::cell::{Cell, UnsafeCell};
use std::sync::atomic::{AtomicUsize, Ordering};

pub struct GuardAlloc;

const PAGE: usize = 4096;
const ARENA_SIZE: usize = 1 << 40;

static ARENA_BASE: AtomicUsize = AtomicUsize::new(0);
pub static LIVE_BYTES: std::sync::atomic::AtomicIsize = std::sync::atomic::AtomicIsize::new(0);
static ARENA_NEXT: AtomicUsize = AtomicUsize::new(0);

thread_local! {
    /// 0 = off, 1 = flush right (overrun faults), 2 = flush left (underrun faults)
    static MODE: Cell<u8> = const { Cell::new(0) };
    static CASE_LEN: Cell<usize> = const { Cell::new(0) };
    static CASE_BUF: UnsafeCell<[u8; 16384]> = const { UnsafeCell::new([0; 16384]) };
}

thread_local! {
    static TRACK: Cell<bool> = const { Cell::new(false) };
    static TRACKED_N: Cell<usize> = const { Cell::new(0) };
    static TRACKED: UnsafeCell<[(usize, usize, usize); 64]> = const { UnsafeCell::new([(0, 0, 0); 64]) };
}

/// Start recording the `alloc_zeroed` blocks (tape, interpreter context) made by the subject.
pub fn track_begin() {
    TRACKED_N.with(|n| n.set(0));
    TRACK.with(|t| t.set(true));
}

/// Stop recording.  If `free_leftovers`, blocks that are still live are freed: an engine
/// abort that unwinds through the threaded interpreter skips its `free_context`, which would
/// otherwise leak the context and the tape on every aborted run.
pub fn track_end(free_leftovers: bool) {
    TRACK.with(|t| t.set(false));
    let n = TRACKED_N.with(|n| n.replace(0));
    if free_leftovers {
        TRACKED.with(|b| {
            let arr = unsafe { &*b.get() };
            for &(p, size, align) in arr.iter().take(n) {
                if p != 0 {
                    unsafe {
                        let layout = Layout::from_size_align_unchecked(size, align);
                        GuardAlloc.dealloc(p as *mut u8, layout);
                    }
                }
            }
        });
    }
}

fn track_add(p: *mut u8, layout: Layout) {
    if p.is_null() || !TRACK.with(|t| t.get()) {
        return;
    }
    let n = TRACKED_N.with(|n| n.get());
    if n < 64 {
        TRACKED.with(|b| unsafe { (*b.get())[n] = (p as usize, layout.size(), layout.align()) });
        TRACKED_N.with(|c| c.set(n + 1));
    }
}

fn track_remove(p: *mut u8) {
    if !TRACK.with(|t| t.get()) {
        return;
    }
    let n = TRACKED_N.with(|n| n.get());
    TRACKED.with(|b| unsafe {
        let arr = &mut *b.get();
        for e in arr.iter_mut().take(n) {
            if e.0 == p as usize {
                e.0 = 0;
            }
        }
    });
}

pub fn set_mode(m: u8) {
    MODE.with(|c| c.set(m));
}

pub fn mode() -> u8 {
    MODE.with(|c| c.get())
}

/// Pre-render the description of what this thread is about to run, for the fault handler.
pub fn set_case(s: &str) {
    CASE_BUF.with(|b| {
        let buf = unsafe { &mut *b.get() };
        let n = s.len().min(buf.len());
        buf[..n].copy_from_slice(&s.as_bytes()[..n]);
        CASE_LEN.with(|l| l.set(n));
    });
}

fn in_arena(p: usize) -> bool {
    let base = ARENA_BASE.load(Ordering::Relaxed);
    base != 0 && p >= base && p < base + ARENA_SIZE
}

pub fn init() {
    unsafe {
        let p = libc::mmap(std::ptr::null_mut(), ARENA_SIZE, libc::PROT_NONE, libc::MAP_PRIVATE | libc::MAP_ANONYMOUS | libc::MAP_NORESERVE, -1, 0);
        if p == libc::MAP_FAILED {
            eprintln!("guard arena reservation failed");
            return;
        }
        ARENA_NEXT.store(p as usize + PAGE, Ordering::SeqCst);
        ARENA_BASE.store(p as usize, Ordering::SeqCst);
        // alternate signal stack + handler
        let stack_size = 1 << 16;
        let stack = libc::mmap(std::ptr::null_mut(), stack_size, libc::PROT_READ | libc::PROT_WRITE, libc::MAP_PRIVATE | libc::MAP_ANONYMOUS, -1, 0);
        let ss = libc::stack_t { ss_sp: stack, ss_flags: 0, ss_size: stack_size };
        libc::sigaltstack(&ss, std::ptr::null_mut());
        let mut sa: libc::sigaction = std::mem::zeroed();
        sa.sa_sigaction = handler as usize;
        sa.sa_flags = libc::SA_SIGINFO | libc::SA_ONSTACK;
        libc::sigemptyset(&mut sa.sa_mask);
        libc::sigaction(libc::SIGSEGV, &sa, std::ptr::null_mut());
        libc::sigaction(libc::SIGBUS, &sa, std::ptr::null_mut());
    }
}

/// Worker threads need their own alternate stack.
pub fn init_thread() {
    unsafe {
        let stack_size = 1 << 16;
        let stack = libc::mmap(std::ptr::null_mut(), stack_size, libc::PROT_READ | libc::PROT_WRITE, libc::MAP_PRIVATE | libc::MAP_ANONYMOUS, -1, 0);
        let ss = libc::stack_t { ss_sp: stack, ss_flags: 0, ss_size: stack_size };
        libc::sigaltstack(&ss, std::ptr::null_mut());
    }
}

extern "C" fn handler(_sig: libc::c_int, info: *mut libc::siginfo_t, _ctx: *mut libc::c_void) {
    unsafe {
        let addr = (*info).si_addr() as usize;
        if in_arena(addr) {
            let msg = b"\nGUARD-FAULT ";
            libc::write(1, msg.as_ptr() as *const _, msg.len());
            CASE_BUF.with(|b| {
                let buf = &*b.get();
                let n = CASE_LEN.with(|l| l.get());
                libc::write(1, buf.as_ptr() as *const _, n);
            });
            let nl = b"\n";
            libc::write(1, nl.as_ptr() as *const _, 1);
            libc::_exit(77);
        }
        // not ours: restore default action and return to re-fault
        let mut sa: libc::sigaction = std::mem::zeroed();
        sa.sa_sigaction = libc::SIG_DFL;
        libc::sigaction(libc::SIGSEGV, &sa, std::ptr::null_mut());
        libc::sigaction(libc::SIGBUS, &sa, std::ptr::null_mut());
    }
}

unsafe fn guard_alloc(layout: Layout, mode: u8) -> *mut u8 {
    let size = layout.size().max(1);
    let pages = (size + PAGE - 1) / PAGE;
    // data pages followed by one guard page; the page before the data is the previous block's guard
    let span = (pages + 1) * PAGE;
    let start = ARENA_NEXT.fetch_add(span, Ordering::SeqCst);
    let base = ARENA_BASE.load(Ordering::Relaxed);
    if base == 0 || start + span > base + ARENA_SIZE {
        return System.alloc_zeroed(layout);
    }
    if libc::mprotect(start as *mut _, pages * PAGE, libc::PROT_READ | libc::PROT_WRITE) != 0 {
        return System.alloc_zeroed(layout);
    }
    if mode == 2 {
        start as *mut u8
    } else {
        let end = start + pages * PAGE;
        let p = (end - size) & !(layout.align() - 1);
        p as *mut u8
    }
}

unsafe fn guard_free(ptr: *mut u8, layout: Layout) {
    let size = layout.size().max(1);
    let pages = (size + PAGE - 1) / PAGE;
    let start = (ptr as usize) & !(PAGE - 1);
    // right-flush blocks may start in the middle of their first page
    let start = if (ptr as usize) - start + size > pages * PAGE { start } else { start };
    libc::madvise(start as *mut _, pages * PAGE, libc::MADV_DONTNEED);
    libc::mprotect(start as *mut _, pages * PAGE, libc::PROT_NONE);
}

unsafe impl GlobalAlloc for GuardAlloc {
    unsafe fn alloc(&self, layout: Layout) -> *mut u8 {
        LIVE_BYTES.fetch_add(layout.size() as isize, Ordering::Relaxed);
        System.alloc(layout)
    }
    unsafe fn alloc_zeroed(&self, layout: Layout) -> *mut u8 {
        LIVE_BYTES.fetch_add(layout.size() as isize, Ordering::Relaxed);
        let m = MODE.with(|c| c.get());
        let p = if m != 0 { guard_alloc(layout, m) } else { System.alloc_zeroed(layout) };
        track_add(p, layout);
        p
    }
    unsafe fn dealloc(&self, ptr: *mut u8, layout: Layout) {
        LIVE_BYTES.fetch_sub(layout.size() as isize, Ordering::Relaxed);
        track_remove(ptr);
        if in_arena(ptr as usize) {
            guard_free(ptr, layout)
        } else {
            System.dealloc(ptr, layout)
        }
    }
    unsafe fn realloc(&self, ptr: *mut u8, layout: Layout, new_size: usize) -> *mut u8 {
        LIVE_BYTES.fetch_add(new_size as isize - layout.size() as isize, Ordering::Relaxed);
        if in_arena(ptr as usize) {
            let new_layout = Layout::from_size_align_unchecked(new_size, layout.align());
            let n = System.alloc(new_layout);
            if !n.is_null() {
                std::ptr::copy_nonoverlapping(ptr, n, layout.size().min(new_size));
                guard_free(ptr, layout);
            }
            n
        } else {
            System.realloc(ptr, layout, new_size)
        }
    }
}
