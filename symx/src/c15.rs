//! C15: the real `ir::Expr` API over symbolic coefficients (`SymCell<W>`): expressions are
//! built only through the public constructors/combinators as trees; variable values and
//! `val` leaves are solver variables; the implementation's own case splits fork on the
//! solver; each obligation is an equality of terms decided by the solver.

use crate::engine::{self, explore, feasible, with, HashMode, IoCfg, Limits, PathEnd};
use crate::solver::{Answer, Kind, Stats};
use crate::symcell::SymCell;
use crate::term::{Witness, T};
use hpbf::ir::{CodeGen, Expr};
use hpbf::CellType;
use serde_json::{json, Value};

#[derive(Clone, Debug)]
pub enum Tree {
    Val(u32),
    Var(isize),
    Add(Box<Tree>, Box<Tree>),
    Mul(Box<Tree>, Box<Tree>),
    Neg(Box<Tree>),
}

impl Tree {
    pub fn show(&self) -> String {
        match self {
            Tree::Val(k) => format!("c{}", k),
            Tree::Var(v) => format!("x{}", v),
            Tree::Add(a, b) => format!("({}+{})", a.show(), b.show()),
            Tree::Mul(a, b) => format!("({}*{})", a.show(), b.show()),
            Tree::Neg(a) => format!("-{}", a.show()),
        }
    }
}

const VAR_BASE: u32 = 100; // solver variable ids of x0..x2
const COEF_BASE: u32 = 200; // solver variable ids of the val leaves

fn var_val<const B: u32>(v: isize) -> SymCell<B> {
    SymCell(with(|c| c.ar.var(B as u8, VAR_BASE + v as u32)))
}

fn coef<const B: u32>(k: u32, special: &[(u32, u64)]) -> SymCell<B> {
    for (kk, v) in special {
        if *kk == k {
            return SymCell::<B>::konst(*v);
        }
    }
    SymCell(with(|c| c.ar.var(B as u8, COEF_BASE + k)))
}

fn build<const B: u32>(t: &Tree, sp: &[(u32, u64)]) -> Expr<SymCell<B>> {
    match t {
        Tree::Val(k) => Expr::val(coef::<B>(*k, sp)),
        Tree::Var(v) => Expr::var(*v),
        Tree::Add(a, b) => build::<B>(a, sp).add(build::<B>(b, sp)),
        Tree::Mul(a, b) => build::<B>(a, sp).mul(build::<B>(b, sp)),
        Tree::Neg(a) => build::<B>(a, sp).neg(),
    }
}

fn value<const B: u32>(t: &Tree, sp: &[(u32, u64)], sigma: &dyn Fn(isize) -> SymCell<B>) -> SymCell<B> {
    match t {
        Tree::Val(k) => coef::<B>(*k, sp),
        Tree::Var(v) => sigma(*v),
        Tree::Add(a, b) => value::<B>(a, sp, sigma).wrapping_add(value::<B>(b, sp, sigma)),
        Tree::Mul(a, b) => value::<B>(a, sp, sigma).wrapping_mul(value::<B>(b, sp, sigma)),
        Tree::Neg(a) => value::<B>(a, sp, sigma).wrapping_neg(),
    }
}

struct EvalGen<const B: u32>;
impl<const B: u32> CodeGen<SymCell<B>> for EvalGen<B> {
    type Output = SymCell<B>;
    type Error = ();
    fn imm(&mut self, imm: SymCell<B>) -> Result<SymCell<B>, ()> {
        Ok(imm)
    }
    fn mem(&mut self, var: isize) -> Result<SymCell<B>, ()> {
        Ok(var_val::<B>(var))
    }
    fn add(&mut self, a: SymCell<B>, b: SymCell<B>) -> Result<SymCell<B>, ()> {
        Ok(a.wrapping_add(b))
    }
    fn sub(&mut self, a: SymCell<B>, b: SymCell<B>) -> Result<SymCell<B>, ()> {
        Ok(a.wrapping_add(b.wrapping_neg()))
    }
    fn mul(&mut self, a: SymCell<B>, b: SymCell<B>) -> Result<SymCell<B>, ()> {
        Ok(a.wrapping_mul(b))
    }
}

pub enum Ob {
    Ok,
    Cex(String),
    Unknown,
}

fn must_equal<const B: u32>(a: SymCell<B>, b: SymCell<B>) -> Ob {
    if a.0 == b.0 {
        return Ob::Ok;
    }
    let l = with(|c| c.ar.eq_lit(B as u8, a.0, b.0));
    match l {
        Err(true) => Ob::Ok,
        Err(false) => Ob::Cex("constant mismatch".into()),
        Ok(l) => {
            let mut m = Witness::default();
            match feasible(&[l.not()], Some(&mut m)) {
                Answer::Unsat => Ob::Ok,
                Answer::Sat => Ob::Cex(format!("assignment {:?}", {
                    let mut v: Vec<(u32, u64)> = m.vars.into_iter().collect();
                    v.sort();
                    v
                })),
                Answer::Unknown(_) => Ob::Unknown,
            }
        }
    }
}

fn obligations<const B: u32>(t: &Tree, sp: &[(u32, u64)]) -> Vec<(String, Ob)> {
    let mut obs: Vec<(String, Ob)> = Vec::new();
    let x = |v: isize| var_val::<B>(v);
    let e = build::<B>(t, sp);
    let direct = value::<B>(t, sp, &x);
    let ev = e.evaluate(x);
    obs.push(("evaluate(build(tree)) == value(tree)  [sum, product, negation]".into(), must_equal(ev, direct)));
    // normalisation
    let n = e.clone().normalize();
    obs.push(("evaluate(normalize(e)) == evaluate(e)".into(), must_equal(n.evaluate(x), ev)));
    // halving
    if let Some(h) = e.half() {
        let hv = h.evaluate(x);
        obs.push(("2 * evaluate(half(e)) == evaluate(e)".into(), must_equal(hv.wrapping_add(hv), ev)));
    }
    // substitution x_i -> x_{(i+1)%3} + 3 and x_i -> 2*x_i*x_0
    let s1 = |i: isize| Some(Expr::<SymCell<B>>::var((i + 1) % 3).add(Expr::val(SymCell::<B>::konst(3))));
    if let Some(se) = e.symb_evaluate(s1) {
        let sig = |i: isize| var_val::<B>((i + 1) % 3).wrapping_add(SymCell::<B>::konst(3));
        obs.push(("evaluate(symb_evaluate(e, s)) == value(tree) under s  [affine substitution]".into(), must_equal(se.evaluate(x), value::<B>(t, sp, &sig))));
    }
    let s2 = |i: isize| Some(Expr::<SymCell<B>>::var(i).mul(Expr::var(0)).mul(Expr::val(SymCell::<B>::konst(2))));
    if let Some(se) = e.symb_evaluate(s2) {
        let sig = |i: isize| var_val::<B>(i).wrapping_mul(var_val::<B>(0)).wrapping_mul(SymCell::<B>::konst(2));
        obs.push(("evaluate(symb_evaluate(e, s)) == value(tree) under s  [product substitution]".into(), must_equal(se.evaluate(x), value::<B>(t, sp, &sig))));
    }
    // decompositions
    for v in 0..3isize {
        if let Some(r) = e.inc_of(v) {
            obs.push((format!("inc_of: e == x{} + rest", v), must_equal(x(v).wrapping_add(r.evaluate(x)), ev)));
        }
        if let Some((r, m)) = e.prod_inc_of(v) {
            obs.push((format!("prod_inc_of: e == m*x{} + rest", v), must_equal(m.wrapping_mul(x(v)).wrapping_add(r.evaluate(x)), ev)));
        }
        if let Some(c) = e.const_inc_of(v) {
            obs.push((format!("const_inc_of: e == x{} + c", v), must_equal(x(v).wrapping_add(c), ev)));
        }
        if let Some(r) = e.prod_of(v) {
            obs.push((format!("prod_of: e == x{} * rest", v), must_equal(x(v).wrapping_mul(r.evaluate(x)), ev)));
        }
    }
    if let Some(c) = e.constant() {
        obs.push(("constant: e == c".into(), must_equal(c, ev)));
    }
    {
        let zero = |_: isize| SymCell::<B>::konst(0);
        obs.push(("constant_part == evaluate at all variables zero".into(), must_equal(e.constant_part(), e.evaluate(zero))));
    }
    if let Some(v) = e.identity() {
        obs.push(("identity: e == x_v".into(), must_equal(x(v), ev)));
    }
    let mut g = EvalGen::<B>;
    if let Ok(cg) = e.codegen(&mut g, |v| v as usize) {
        obs.push(("codegen through an evaluating back end == evaluate".into(), must_equal(cg, ev)));
    }
    obs
}

#[derive(Default)]
pub struct Out {
    pub shapes: u64,
    pub paths: u64,
    pub obligations: u64,
    pub discharged: u64,
    pub undecided: u64,
    pub violations: Vec<String>,
    pub inconclusive: Vec<String>,
    pub stats: Stats,
    pub classes: std::collections::BTreeMap<String, (u64, u64)>,
    pub samples: Vec<Value>,
    pub skipped: u64,
}

fn run_shape<const B: u32>(t: &Tree, sp: &[(u32, u64)], timeout_ms: u64, out: &mut Out) {
    engine::init(if B == 64 { Kind::Portfolio } else { Kind::Z3 }, timeout_ms, Limits { max_decisions: 256, max_paths: 512, max_ops: 10_000_000 }, HashMode::Uniform, IoCfg::default());
    with(|c| {
        c.width = B as u8;
        c.job_deadline = Some(std::time::Instant::now() + std::time::Duration::from_secs(20));
    });
    let ex = explore(|| obligations::<B>(t, sp));
    out.shapes += 1;
    for p in ex.paths {
        out.paths += 1;
        match p.end {
            PathEnd::Done(obs) => {
                for (name, ob) in obs {
                    out.obligations += 1;
                    let key = format!("{} | w{}", name.split("  [").next().unwrap_or(&name).replace(|c: char| c.is_ascii_digit() && false, ""), B);
                    let e = out.classes.entry(key).or_insert((0, 0));
                    match ob {
                        Ob::Ok => {
                            out.discharged += 1;
                            e.0 += 1;
                        }
                        Ob::Unknown => {
                            out.undecided += 1;
                            e.1 += 1;
                        }
                        Ob::Cex(s) => out.violations.push(format!("w{} shape {} special {:?}: {}: {}", B, t.show(), sp, name, s)),
                    }
                }
            }
            PathEnd::Abort(engine::Abort::Truncated(_)) => out.undecided += 1,
            PathEnd::Abort(engine::Abort::Inconclusive(s)) => out.inconclusive.push(format!("w{} shape {}: {}", B, t.show(), s)),
            PathEnd::Panic(s) => out.violations.push(format!("w{} shape {}: panic in the real code: {}", B, t.show(), s)),
        }
    }
    out.stats.add(&engine::take_stats());
}

fn leaves(next_coef: &mut u32) -> Vec<Tree> {
    let k = *next_coef;
    *next_coef += 1;
    vec![Tree::Val(k), Tree::Var(0), Tree::Var(1), Tree::Var(2)]
}

/// All trees of depth <= 2 (operators applied to leaves), coefficients numbered per leaf.
pub fn depth2() -> Vec<Tree> {
    let mut out = Vec::new();
    let mut k = 0u32;
    let ls = |k: &mut u32| leaves(k);
    for a in ls(&mut k) {
        out.push(a.clone());
        out.push(Tree::Neg(Box::new(a.clone())));
        for b in ls(&mut k) {
            out.push(Tree::Add(Box::new(a.clone()), Box::new(b.clone())));
            out.push(Tree::Mul(Box::new(a.clone()), Box::new(b.clone())));
        }
    }
    out
}

fn pow(v: isize, n: u32) -> Tree {
    let mut t = Tree::Var(v);
    for _ in 1..n {
        t = Tree::Mul(Box::new(t), Box::new(Tree::Var(v)));
    }
    t
}

/// Polynomials with repeated variables (the x*x = x (mod 2) family of `normalize`):
/// sums of monomials x^i * y^j, with and without symbolic coefficients.
pub fn poly_shapes() -> Vec<Tree> {
    let monos: Vec<Tree> = vec![
        pow(0, 1),
        pow(0, 2),
        pow(0, 3),
        Tree::Mul(Box::new(pow(0, 1)), Box::new(pow(1, 1))),
        Tree::Mul(Box::new(pow(0, 2)), Box::new(pow(1, 1))),
        Tree::Mul(Box::new(pow(0, 1)), Box::new(pow(1, 2))),
        Tree::Mul(Box::new(pow(0, 3)), Box::new(pow(1, 1))),
        pow(1, 1),
        pow(1, 2),
    ];
    let mut out = Vec::new();
    let n = monos.len();
    // all sums of 2 and 3 monomials, plain and with a symbolic coefficient on each
    for a in 0..n {
        for b in (a + 1)..n {
            let plain = Tree::Add(Box::new(monos[a].clone()), Box::new(monos[b].clone()));
            out.push(plain.clone());
            let coef = Tree::Add(
                Box::new(Tree::Mul(Box::new(Tree::Val(0)), Box::new(monos[a].clone()))),
                Box::new(Tree::Mul(Box::new(Tree::Val(1)), Box::new(monos[b].clone()))),
            );
            out.push(coef);
            for c in (b + 1)..n {
                out.push(Tree::Add(Box::new(plain.clone()), Box::new(monos[c].clone())));
                if (a + b + c) % 3 == 0 {
                    out.push(Tree::Add(
                        Box::new(Tree::Add(
                            Box::new(Tree::Mul(Box::new(Tree::Val(0)), Box::new(monos[a].clone()))),
                            Box::new(Tree::Mul(Box::new(Tree::Val(1)), Box::new(monos[b].clone()))),
                        )),
                        Box::new(Tree::Mul(Box::new(Tree::Val(2)), Box::new(monos[c].clone()))),
                    ));
                }
            }
        }
    }
    out
}

pub fn random_tree(r: &mut crate::corpus::Rng, depth: u32, k: &mut u32) -> Tree {
    if depth == 0 || r.below(5) == 0 {
        let c = r.below(5);
        if c < 2 {
            let t = Tree::Val(*k);
            *k += 1;
            t
        } else {
            Tree::Var((c - 2) as isize)
        }
    } else {
        match r.below(7) {
            0 | 1 | 2 => Tree::Add(Box::new(random_tree(r, depth - 1, k)), Box::new(random_tree(r, depth - 1, k))),
            3 | 4 | 5 => Tree::Mul(Box::new(random_tree(r, depth - 1, k)), Box::new(random_tree(r, depth - 1, k))),
            _ => Tree::Neg(Box::new(random_tree(r, depth - 1, k))),
        }
    }
}

pub fn run(seed: u64, thorough: bool) -> (Out, Value) {
    let mut out = Out::default();
    let t0 = std::time::Instant::now();
    let budget = std::time::Duration::from_secs(if thorough { 1200 } else { 160 });
    let mut shapes: Vec<Tree> = Vec::new();
    // interleave the exhaustive depth-2 trees with the polynomial family
    let d2 = depth2();
    let po = poly_shapes();
    let npoly = po.len();
    let mut i2 = d2.into_iter();
    let mut ip = po.into_iter();
    loop {
        let a = i2.next();
        let b = ip.next();
        let b2 = ip.next();
        if a.is_none() && b.is_none() {
            break;
        }
        shapes.extend(a);
        shapes.extend(b);
        shapes.extend(b2);
    }
    let mut r = crate::corpus::Rng::new(seed ^ 0xC15);
    let n3 = if thorough { 3000 } else { 250 };
    for _ in 0..n3 {
        let mut k = 0;
        shapes.push(random_tree(&mut r, 3, &mut k));
    }
    let total = shapes.len();
    let half8: u64 = 0x80;
    for (i, t) in shapes.iter().enumerate() {
        if t0.elapsed() > budget {
            out.skipped = (total - i) as u64;
            break;
        }
        // width 8: everything symbolic, decided by bit-blasting
        run_shape::<8>(t, &[], 5_000, &mut out);
        // the half-modulus special case of normalize, forced on the first coefficient
        if i % 3 == 0 {
            run_shape::<8>(t, &[(0, half8)], 5_000, &mut out);
        }
        // wider widths: same shapes, short solver cap; undecided obligations are reported, not claimed
        if i % 4 == 1 {
            run_shape::<16>(t, &[], 2_000, &mut out);
        }
        if i % 16 == 3 {
            run_shape::<64>(t, &[], 1_500, &mut out);
            run_shape::<64>(t, &[(0, 1u64 << 63)], 1_500, &mut out);
        }
        if out.samples.len() < 4 && i % 37 == 5 {
            out.samples.push(json!({"shape": t.show(), "note": "c_k = symbolic coefficient of a val leaf, x_i = symbolic variable value"}));
        }
    }
    let desc = json!({
        "shapes": format!("all {} constructor trees of depth <= 2 over val/var leaves, {} polynomial shapes with repeated variables (sums of 2-3 monomials x^i*y^j, plain and with symbolic coefficients), plus {} random trees of depth 3 (seed {}); {} skipped by the time box", depth2().len(), npoly, n3, seed, out.skipped),
        "widths": "8 (every shape, all coefficients and variable values symbolic, plus the first coefficient forced to 2^(W-1) on every third shape); 16 on every fourth shape; 64 on every sixteenth shape",
        "variables": 3,
    });
    (out, desc)
}

pub fn _t(_: T) {}
