//! The program dimension: EXH (bounded-exhaustive), GEN (idiom grammar), REPO (the
//! repository's own test programs, extracted at run time).

use crate::refbf::balanced;

pub struct Rng(pub u64);
impl Rng {
    pub fn new(seed: u64) -> Rng {
        Rng(seed.wrapping_mul(0x9E3779B97F4A7C15) ^ 0xD1B54A32D192ED03)
    }
    pub fn next(&mut self) -> u64 {
        self.0 ^= self.0 << 13;
        self.0 ^= self.0 >> 7;
        self.0 ^= self.0 << 17;
        self.0
    }
    pub fn below(&mut self, n: u64) -> u64 {
        self.next() % n.max(1)
    }
    pub fn pick<'a, T>(&mut self, xs: &'a [T]) -> &'a T {
        &xs[self.below(xs.len() as u64) as usize]
    }
}

/// Every bracket-balanced string over `alphabet` of length 1..=n.
pub fn exh(n: usize, alphabet: &[u8], skip_cancelling: bool) -> Vec<String> {
    let mut out = Vec::new();
    let mut cur: Vec<u8> = Vec::new();
    fn rec(n: usize, alphabet: &[u8], skip: bool, cur: &mut Vec<u8>, depth: usize, out: &mut Vec<String>) {
        if depth == 0 && !cur.is_empty() {
            out.push(String::from_utf8(cur.clone()).unwrap());
        }
        if cur.len() == n {
            return;
        }
        let remaining = n - cur.len();
        for &c in alphabet {
            if c == b']' && depth == 0 {
                continue;
            }
            if c == b'[' && depth + 2 > remaining {
                continue;
            }
            if c != b']' && c != b'[' && depth + 1 > remaining {
                continue;
            }
            if skip {
                if let Some(&p) = cur.last() {
                    if matches!((p, c), (b'+', b'-') | (b'-', b'+') | (b'<', b'>') | (b'>', b'<')) {
                        continue;
                    }
                }
            }
            cur.push(c);
            let d = if c == b'[' {
                depth + 1
            } else if c == b']' {
                depth - 1
            } else {
                depth
            };
            rec(n, alphabet, skip, cur, d, out);
            cur.pop();
        }
    }
    rec(n, alphabet, skip_cancelling, &mut cur, 0, &mut out);
    out
}

pub const BF: &[u8] = b"+-<>[].,";

/// Programs whose behaviour depends on input data and that contain a loop: these
/// are the ones the solver has to work on.
pub fn needs_solver(p: &str) -> bool {
    p.contains(',') && p.contains('[')
}

/// Extract Brainfuck programs from the repository's test definitions.
pub fn repo_programs(repo: &str) -> Vec<(String, String)> {
    let mut out = Vec::new();
    let path = format!("{}/src/exec/testdef.rs", repo);
    if let Ok(src) = std::fs::read_to_string(&path) {
        let lits = rust_string_literals(&src);
        for (i, (pre, s)) in lits.iter().enumerate() {
            let is_code = pre.trim_end().ends_with("let code =") || pre.trim_end().ends_with("$i,");
            if !is_code {
                continue;
            }
            if !s.bytes().any(|b| BF.contains(&b)) || !balanced(s) {
                continue;
            }
            if out.iter().any(|(_, c): &(String, String)| c == s) {
                continue;
            }
            out.push((format!("testdef#{}", i), s.clone()));
        }
    }
    if let Ok(rd) = std::fs::read_dir(format!("{}/examples", repo)) {
        let mut files: Vec<_> = rd.filter_map(|e| e.ok()).map(|e| e.path()).filter(|p| p.extension().map_or(false, |x| x == "bf")).collect();
        files.sort();
        for f in files {
            if let Ok(s) = std::fs::read_to_string(&f) {
                if balanced(&s) {
                    out.push((format!("examples/{}", f.file_name().unwrap().to_string_lossy()), s));
                }
            }
        }
    }
    out
}

/// Expected outputs stated in the repository's executor tests: (code, input, expected output, bits).
pub fn repo_expectations(repo: &str) -> Vec<(String, Vec<u8>, Vec<u8>, u32)> {
    let mut out = Vec::new();
    let path = format!("{}/src/exec/testdef.rs", repo);
    let src = match std::fs::read_to_string(&path) {
        Ok(s) => s,
        Err(_) => return out,
    };
    // split into test functions
    for chunk in src.split("#[test]").skip(1) {
        let end = chunk.find("Ok(())").unwrap_or(chunk.len());
        let body = &chunk[..end];
        if !body.contains("let code =") || !body.contains("assert_eq!(String::from_utf8(buf)") {
            continue;
        }
        let bits = if body.contains("Context::<u64>") {
            64
        } else if body.contains("Context::<u32>") {
            32
        } else if body.contains("Context::<u16>") {
            16
        } else {
            8
        };
        let lits = rust_string_literals(body);
        let mut code = None;
        let mut input: Vec<u8> = vec![];
        let mut expected = None;
        for (pre, s) in &lits {
            let p = pre.trim_end();
            if p.ends_with("let code =") {
                code = Some(s.clone());
            } else if p.ends_with("Some(Box::new(") {
                input = s.as_bytes().to_vec();
            } else if p.ends_with("unwrap(),") {
                expected = Some(s.as_bytes().to_vec());
            }
        }
        if let (Some(c), Some(e)) = (code, expected) {
            out.push((c, input, e, bits));
        }
    }
    out
}

/// (text preceding the literal on its statement, unescaped literal) for every "..." literal.
fn rust_string_literals(src: &str) -> Vec<(String, String)> {
    let b = src.as_bytes();
    let mut out = Vec::new();
    let mut i = 0;
    let mut last_end = 0;
    while i < b.len() {
        if b[i] == b'/' && i + 1 < b.len() && b[i + 1] == b'/' {
            while i < b.len() && b[i] != b'\n' {
                i += 1;
            }
            continue;
        }
        if b[i] == b'\'' {
            // char literal or lifetime: skip conservatively
            if i + 2 < b.len() && b[i + 2] == b'\'' {
                i += 3;
                continue;
            }
            if i + 3 < b.len() && b[i + 1] == b'\\' && b[i + 3] == b'\'' {
                i += 4;
                continue;
            }
            i += 1;
            continue;
        }
        if b[i] == b'"' {
            let start = i;
            i += 1;
            let mut s = Vec::new();
            while i < b.len() && b[i] != b'"' {
                if b[i] == b'\\' && i + 1 < b.len() {
                    match b[i + 1] {
                        b'n' => {
                            s.push(b'\n');
                            i += 2;
                        }
                        b't' => {
                            s.push(b'\t');
                            i += 2;
                        }
                        b'\\' => {
                            s.push(b'\\');
                            i += 2;
                        }
                        b'"' => {
                            s.push(b'"');
                            i += 2;
                        }
                        b'\n' => {
                            // line continuation: skip the newline and leading whitespace
                            i += 2;
                            while i < b.len() && (b[i] == b' ' || b[i] == b'\t' || b[i] == b'\n') {
                                i += 1;
                            }
                        }
                        c => {
                            s.push(c);
                            i += 2;
                        }
                    }
                } else {
                    s.push(b[i]);
                    i += 1;
                }
            }
            i += 1;
            let pre_start = src[last_end..start].rfind(|c| c == ';' || c == '{' || c == '}').map(|p| last_end + p + 1).unwrap_or(last_end);
            let pre = src[pre_start..start].to_string();
            out.push((pre, String::from_utf8_lossy(&s).to_string()));
            last_end = i.min(b.len());
            continue;
        }
        i += 1;
    }
    out
}

fn rep(c: char, n: usize) -> String {
    std::iter::repeat(c).take(n).collect()
}

/// Generated idiom programs.  Deterministic in `seed`.
pub fn gen(seed: u64, count: usize) -> Vec<String> {
    let mut r = Rng::new(seed);
    let mut out: Vec<String> = Vec::new();
    let consts: [usize; 9] = [1, 2, 3, 4, 5, 7, 8, 15, 16];
    let mut i = 0;
    while out.len() < count && i < count * 20 {
        i += 1;
        let a = *r.pick(&consts);
        let b = *r.pick(&consts);
        let c = *r.pick(&consts);
        let src: &str = *r.pick(&[",", ",", "+", ",>,<"]);
        let init = match src {
            "+" => rep('+', a),
            s => s.to_string(),
        };
        let p = match r.below(28) {
            // counted copy / multiply loops with various steps
            0 => format!("{}[>{}<{}]>.", init, rep('+', b), rep('-', c)),
            1 => format!("{}[>{}>{}<<-]>.>.", init, rep('+', b), rep('-', c)),
            2 => format!("{}[-]>{}[<{}>-]<.", init, rep('+', a), rep('+', b)),
            // doubling x+=y; y=x
            3 => format!(",>,<[>[<+>>+<-]>[<+>-]<<-]>.<.", ),
            4 => format!("{}>{}<[>[>+>+<<-]>>[<<+>>-]<<<-]>>.", init, rep('+', b)),
            // triangular accumulation
            5 => format!("{}[>+[>+>+<<-]>>[<<+>>-]<<<-]>.>.", init),
            // geometric
            6 => format!("+>{}[<[>>+>+<<<-]>>>[<<<+>>>-]<[<<{}>>-]<-]<.", init, rep('+', b)),
            // if idiom
            7 => format!("{}[>{}.<[-]]>.", init, rep('+', b)),
            8 => format!("{}>{}<[>-<[-]]>[.[-]]", init, rep('+', a)),
            // scans
            9 => format!("{}>{}>{}<<[>]<.", init, rep('+', a), rep('+', b)),
            10 => format!(">>{}<<{}>>[<]>.", init, rep('+', a)),
            11 => format!("{}[>>]<<.{}[<<]>.", init, rep('+', a)),
            // I/O in loops
            12 => format!("{}[.-]", init),
            13 => format!("{}[.,]", init),
            14 => format!("{}[>,.<-]", init),
            15 => format!(",[>,]<[.<]"),
            // nested loops, shifting
            16 => format!("{}[>{}[>+<-]<-]>>.", init, rep('+', b)),
            17 => format!("{}[>+>+<<-]>>[<<+>>-]<[>.<-]", init),
            18 => format!("{}[>{}<-]>[<+>-]<.", init, rep('+', b)),
            // dead stores, overwrite by input
            19 => format!("{}{},.", rep('+', a), init),
            20 => format!("{}>{}<[-]>[-]<.>.", init, rep('+', a)),
            // even steps (trip counts with 2-adic division)
            21 => format!("{}[{}>+<]>.", init, rep('-', 2 * b)),
            22 => format!("{}[{}>{}<]>.", init, rep('+', 2 * a), rep('+', b)),
            // far moves and revisits
            23 => format!("{}{}+.{}.", init, rep('>', 40 * a), rep('<', 40 * a)),
            24 => format!("{}{}+.{}.", init, rep('<', 33 * a), rep('>', 33 * a)),
            // loop whose counter is input with inner clear
            25 => format!("{}[>{}[-]<-]>.", init, rep('+', a)),
            // rotation of k cells
            26 => {
                let k = 2 + r.below(4) as usize;
                let mut s = String::new();
                for _ in 0..k {
                    s.push_str(",>");
                }
                s.push_str(&rep('<', k));
                s.push_str("[->+<]>[->+<]");
                for _ in 0..k {
                    s.push_str(">.");
                }
                s
            }
            _ => format!("{}[>+<-]>[<{}>-]<.", init, rep('+', b)),
        };
        if balanced(&p) && !out.contains(&p) {
            out.push(p);
        }
    }
    out
}

/// Programs that roam far over the tape (C06 / C10).
pub fn gen_roaming(seed: u64, count: usize) -> Vec<String> {
    let mut r = Rng::new(seed ^ 0xABCDEF);
    let mut out: Vec<String> = Vec::new();
    let dists = [1usize, 2, 3, 7, 8, 9, 31, 32, 33, 100, 1000, 4097];
    let mut i = 0;
    while out.len() < count && i < count * 20 {
        i += 1;
        let d = *r.pick(&dists);
        let e = *r.pick(&dists);
        let p = match r.below(10) {
            0 => format!(",{}+.{}.", rep('>', d), rep('<', d)),
            1 => format!(",{}+.{}.", rep('<', d), rep('>', d)),
            2 => format!(",{}-.{}+.{}.", rep('<', d), rep('>', d + e), rep('<', e)),
            3 => format!(",[{}+{}-]{}.", rep('>', d.min(33)), rep('<', d.min(33)), rep('>', d.min(33))),
            4 => format!("+[{}+]", rep('>', d.min(9))), // walks right forever (limited/C07 only)
            5 => format!(",>+>+>+<<<[>]{}.", rep('<', e.min(33))),
            6 => format!(",<+<+<+>>>[<]{}.", rep('>', e.min(33))),
            7 => format!(",[>{}+<{}-]>{}.", rep('>', d.min(100)), rep('<', d.min(100)), rep('>', d.min(100))),
            8 => format!(",{}[-]+[{}]", rep('>', d), rep('<', 1)),
            _ => format!(",{}.{}.{}.", rep('>', d), rep('<', 2 * d), rep('>', d)),
        };
        if balanced(&p) && !out.contains(&p) {
            out.push(p);
        }
    }
    out
}

// ---------------------------------------------------------------------------------
// STRUCT: structured programs (a tiny imperative language compiled to Brainfuck)

struct Emit {
    out: String,
    pos: i64,
}

impl Emit {
    fn goto(&mut self, cell: i64) {
        while self.pos < cell {
            self.out.push('>');
            self.pos += 1;
        }
        while self.pos > cell {
            self.out.push('<');
            self.pos -= 1;
        }
    }
    fn add_const(&mut self, cell: i64, k: i64) {
        self.goto(cell);
        let ch = if k >= 0 { '+' } else { '-' };
        for _ in 0..k.abs() {
            self.out.push(ch);
        }
    }
}

const NV: i64 = 4; // variables live in cells 0..NV, temporaries in NV, NV+1

fn gen_stmt(r: &mut Rng, e: &mut Emit, depth: u32, budget: &mut i32) {
    if *budget <= 0 {
        return;
    }
    *budget -= 1;
    let x = r.below(NV as u64) as i64;
    let mut y = r.below(NV as u64) as i64;
    if y == x {
        y = (x + 1) % NV;
    }
    let t = NV;
    let k = *r.pick(&[1i64, 1, 1, 2, 3, -1, -2, 4, 5]);
    let choice = match r.below(if depth >= 2 { 10 } else { 15 }) {
        9 if depth >= 2 => 13,
        13 | 14 => 13,
        c => c,
    };
    match choice {
        0 => e.add_const(x, *r.pick(&[1i64, 2, 3, -1, -2, 7, 8, -8])),
        1 => {
            e.goto(x);
            e.out.push_str("[-]");
        }
        2 => {
            // x += k*y, y destroyed
            e.goto(y);
            e.out.push('[');
            e.add_const(x, k);
            e.add_const(y, -1);
            e.goto(y);
            e.out.push(']');
        }
        3 | 4 => {
            // x += k*y preserving y (through t)
            e.goto(y);
            e.out.push('[');
            e.add_const(x, k);
            e.add_const(t, 1);
            e.add_const(y, -1);
            e.goto(y);
            e.out.push(']');
            e.goto(t);
            e.out.push('[');
            e.add_const(y, 1);
            e.add_const(t, -1);
            e.goto(t);
            e.out.push(']');
        }
        5 => {
            // x = y (copy)
            e.goto(x);
            e.out.push_str("[-]");
            e.goto(y);
            e.out.push('[');
            e.add_const(x, 1);
            e.add_const(t, 1);
            e.add_const(y, -1);
            e.goto(y);
            e.out.push(']');
            e.goto(t);
            e.out.push('[');
            e.add_const(y, 1);
            e.add_const(t, -1);
            e.goto(t);
            e.out.push(']');
        }
        6 => {
            e.goto(x);
            e.out.push('.');
        }
        7 => {
            e.goto(x);
            e.out.push(',');
        }
        8 => {
            // x += y * z (z = another variable), via nested preserving loops, depth-limited
            let z = (y + 1) % NV;
            if z == x {
                e.add_const(x, 1);
                return;
            }
            let t2 = NV + 1;
            e.goto(y);
            e.out.push('[');
            e.goto(z);
            e.out.push('[');
            e.add_const(x, 1);
            e.add_const(t2, 1);
            e.add_const(z, -1);
            e.goto(z);
            e.out.push(']');
            e.goto(t2);
            e.out.push('[');
            e.add_const(z, 1);
            e.add_const(t2, -1);
            e.goto(t2);
            e.out.push(']');
            e.add_const(t, 1);
            e.add_const(y, -1);
            e.goto(y);
            e.out.push(']');
            e.goto(t);
            e.out.push('[');
            e.add_const(y, 1);
            e.add_const(t, -1);
            e.goto(t);
            e.out.push(']');
        }
        13 => {
            // x += y*y (y consumed): the same cell on both sides of a product
            let (t, t2, t3) = (NV, NV + 1, NV + 2);
            e.goto(y);
            e.out.push_str("[-");
            e.add_const(t, 1);
            e.add_const(t2, 1);
            e.goto(y);
            e.out.push(']');
            e.goto(t);
            e.out.push_str("[-");
            e.goto(t2);
            e.out.push_str("[-");
            e.add_const(x, 1);
            e.add_const(t3, 1);
            e.goto(t2);
            e.out.push(']');
            e.goto(t3);
            e.out.push_str("[-");
            e.add_const(t2, 1);
            e.goto(t3);
            e.out.push(']');
            e.goto(t);
            e.out.push(']');
            e.goto(t2);
            e.out.push_str("[-]");
        }
        9 | 10 => {
            // while x { body; x -= step }
            let step = *r.pick(&[1i64, 1, 1, 2, 3, -1, 4]);
            e.goto(x);
            e.out.push('[');
            let n = 1 + r.below(3);
            for _ in 0..n {
                gen_stmt_no_write(r, e, depth + 1, budget, x);
            }
            e.add_const(x, -step);
            e.goto(x);
            e.out.push(']');
        }
        11 => {
            // if x { body }; x = 0
            e.goto(x);
            e.out.push('[');
            let n = 1 + r.below(2);
            for _ in 0..n {
                gen_stmt_no_write(r, e, depth + 1, budget, x);
            }
            e.goto(x);
            e.out.push_str("[-]]");
        }
        _ => {
            // while x { body }  (body may change x arbitrarily: may diverge)
            e.goto(x);
            e.out.push('[');
            let n = 1 + r.below(3);
            for _ in 0..n {
                gen_stmt(r, e, depth + 1, budget);
            }
            e.add_const(x, -1);
            e.goto(x);
            e.out.push(']');
        }
    }
}

/// A statement that avoids writing the loop counter `ctr` most of the time.
fn gen_stmt_no_write(r: &mut Rng, e: &mut Emit, depth: u32, budget: &mut i32, ctr: i64) {
    // try a few times to generate a statement; statements touching ctr are allowed 1 in 4
    let allow = r.below(4) == 0;
    for _ in 0..8 {
        let save_len = e.out.len();
        let save_pos = e.pos;
        let save_budget = *budget;
        let before = r.0;
        gen_stmt(r, e, depth, budget);
        if allow {
            return;
        }
        // crude check: did the emitted code visit ctr's cell and modify it?
        let code = &e.out[save_len..];
        let mut p = save_pos;
        let mut touched = false;
        for ch in code.chars() {
            match ch {
                '>' => p += 1,
                '<' => p -= 1,
                '+' | '-' | ',' => {
                    if p == ctr {
                        touched = true
                    }
                }
                _ => {}
            }
        }
        if !touched {
            return;
        }
        e.out.truncate(save_len);
        e.pos = save_pos;
        *budget = save_budget;
        let _ = before;
    }
}

pub fn gen_struct(seed: u64, count: usize) -> Vec<String> {
    let mut r = Rng::new(seed ^ 0x5717);
    let mut out: Vec<String> = Vec::new();
    let mut tries = 0;
    while out.len() < count && tries < count * 10 {
        tries += 1;
        let mut e = Emit { out: String::new(), pos: 0 };
        // initialise variables: input or small constants
        for v in 0..NV {
            match r.below(4) {
                0 | 1 => {
                    e.goto(v);
                    e.out.push(',');
                }
                2 => e.add_const(v, *r.pick(&[1i64, 2, 3, 5])),
                _ => {}
            }
        }
        let mut budget = 3 + r.below(6) as i32;
        while budget > 0 {
            gen_stmt(&mut r, &mut e, 0, &mut budget);
        }
        for v in 0..NV {
            e.goto(v);
            e.out.push('.');
        }
        if balanced(&e.out) && e.out.len() < 400 && !out.contains(&e.out) {
            out.push(e.out);
        }
    }
    out
}

// ---------------------------------------------------------------------------------
// RAND: short random programs from a grammar biased towards the shapes the optimiser and
// the bytecode generator special-case (clear loops, scans, balanced and unbalanced
// loops, I/O next to loops).  This is the family the repository's own fuzz regressions
// come from; here the *inputs* of each program are then covered by the solver.

fn rand_block(r: &mut Rng, depth: u32, budget: &mut i32, out: &mut String) {
    let n = 1 + r.below(5);
    for _ in 0..n {
        if *budget <= 0 {
            return;
        }
        let c = r.below(100);
        if c < 16 {
            let k = 1 + r.below(3) as usize;
            out.push_str(&rep('+', k));
            *budget -= k as i32;
        } else if c < 30 {
            let k = 1 + r.below(3) as usize;
            out.push_str(&rep('-', k));
            *budget -= k as i32;
        } else if c < 42 {
            let k = 1 + r.below(2) as usize;
            out.push_str(&rep('>', k));
            *budget -= k as i32;
        } else if c < 54 {
            let k = 1 + r.below(2) as usize;
            out.push_str(&rep('<', k));
            *budget -= k as i32;
        } else if c < 64 {
            out.push('.');
            *budget -= 1;
        } else if c < 73 {
            out.push(',');
            *budget -= 1;
        } else if c < 79 {
            out.push_str(*r.pick(&["[-]", "[-]", "[+]", "[--]", "[-]+", "[-]-"]));
            *budget -= 3;
        } else if c < 86 {
            out.push_str(*r.pick(&["[>]", "[<]", "[>>]", "[<<]", "[>]<", "[<]>", "[]"]));
            *budget -= 3;
        } else if depth < 3 {
            out.push('[');
            *budget -= 2;
            rand_block(r, depth + 1, budget, out);
            // most loops get a counter decrement so that they can terminate
            if r.below(3) != 0 {
                out.push(*r.pick(&['-', '-', '+']));
                *budget -= 1;
            }
            out.push(']');
        }
    }
}

pub fn gen_rand(seed: u64, count: usize) -> Vec<String> {
    let mut r = Rng::new(seed ^ 0x7A4D);
    let mut out: Vec<String> = Vec::new();
    let mut seen = std::collections::HashSet::new();
    let mut tries = 0;
    while out.len() < count && tries < count * 20 {
        tries += 1;
        let mut s = String::new();
        let mut budget = 6 + r.below(18) as i32;
        // a prefix that gives the optimiser known and unknown cells to work with
        match r.below(5) {
            0 => s.push(','),
            1 => s.push_str("+>"),
            2 => s.push_str(",>,<"),
            3 => s.push_str("+>++<"),
            _ => {}
        }
        while budget > 0 {
            rand_block(&mut r, 0, &mut budget, &mut s);
        }
        // observe some cells at the end
        match r.below(4) {
            0 => s.push('.'),
            1 => s.push_str(".<.<."),
            2 => s.push_str(".>.>."),
            _ => {}
        }
        if balanced(&s) && s.len() <= 40 && seen.insert(s.clone()) {
            out.push(s);
        }
    }
    out
}

// ---------------------------------------------------------------------------------
// PRESSURE: programs that keep values alive across loops, ifs and I/O (temporaries and
// live ranges in the bytecode generator; register pressure in the JIT).

fn copy_idiom(e: &mut Emit, src: i64, dst: i64, tmp: i64) {
    e.goto(src);
    e.out.push_str("[-");
    e.goto(dst);
    e.out.push('+');
    e.goto(tmp);
    e.out.push('+');
    e.goto(src);
    e.out.push(']');
    e.goto(tmp);
    e.out.push_str("[-");
    e.goto(src);
    e.out.push('+');
    e.goto(tmp);
    e.out.push(']');
}

fn pressure_body(r: &mut Rng, e: &mut Emit, base: i64, n: usize) {
    for _ in 0..n {
        let a = r.below(7) as i64;
        let mut b = r.below(7) as i64;
        if b == a {
            b = (a + 1) % 7;
        }
        let mut t = r.below(7) as i64;
        while t == a || t == b {
            t = (t + 1) % 7;
        }
        match r.below(7) {
            0 | 1 | 2 => copy_idiom(e, a, b, t),
            3 => {
                e.goto(a);
                e.out.push('.');
            }
            4 => {
                e.goto(a);
                e.out.push_str(",+.");
            }
            5 => {
                e.goto(a);
                e.out.push_str(*r.pick(&["+", "-", "++", "[-]"]));
            }
            _ => {
                e.goto(a);
                e.out.push('[');
                e.goto(b);
                e.out.push_str(*r.pick(&["+", "++", "-"]));
                e.goto(a);
                e.out.push_str("-]");
            }
        }
    }
    e.goto(base);
}

pub fn gen_pressure(seed: u64, count: usize) -> Vec<String> {
    let mut r = Rng::new(seed ^ 0x9E55);
    let mut out = Vec::new();
    let mut tries = 0;
    while out.len() < count && tries < count * 10 {
        tries += 1;
        let mut e = Emit { out: String::new(), pos: 0 };
        // early values (some printed: a temporary is created and stays interesting)
        let k = 1 + r.below(3) as i64;
        for c in 0..k {
            e.goto(c);
            e.out.push_str(*r.pick(&[",+.", ",", ",.", "+++"]));
        }
        // a plain loop that neither shifts nor writes the early cells
        let l = k + r.below(2) as i64;
        e.goto(l);
        e.out.push_str(*r.pick(&[",[.-]", ",[-]", "++[-]", ",[>+<-]"]));
        // an if (or a loop) whose body holds a loop with copy idioms
        let c0 = l + 1;
        e.goto(c0);
        e.out.push_str(",[");
        let c1 = c0 + 1;
        e.goto(c1);
        e.out.push_str(",[");
        let n = 2 + r.below(4) as usize;
        pressure_body(&mut r, &mut e, c1, n);
        e.out.push_str("-]");
        e.goto(c0);
        e.out.push_str(*r.pick(&["[-]]", "[-]]", "-]"]));
        // observe
        for c in 0..(1 + r.below(3) as i64) {
            e.goto(c);
            e.out.push('.');
        }
        if balanced(&e.out) && e.out.len() < 260 && !out.contains(&e.out) {
            out.push(e.out);
        }
    }
    out
}

// ---------------------------------------------------------------------------------
// LIVE: many values kept alive across outputs and inputs (register pressure in the JIT:
// callee-saved registers 0-3, caller-saved 4-10, stack slots from 11 on).

pub fn gen_live(seed: u64, count: usize) -> Vec<String> {
    let mut r = Rng::new(seed ^ 0x11FE);
    let mut out = Vec::new();
    let mut tries = 0;
    while out.len() < count && tries < count * 10 {
        tries += 1;
        let k = *r.pick(&[3usize, 5, 6, 8, 12, 13, 14]);
        let mut e = Emit { out: String::new(), pos: 0 };
        for c in 0..k {
            e.goto(c as i64);
            e.out.push_str(*r.pick(&[",", ",", "+++", ",+"]));
        }
        // first sweep: modify and observe each cell (creates one temporary per cell)
        let io = *r.pick(&[".", ".", ",.", ""]);
        for c in (0..k).rev() {
            e.goto(c as i64);
            e.out.push_str(*r.pick(&["-", "+", "--"]));
            e.out.push_str(io);
        }
        // second sweep: use the values again (keeps every temporary alive over the I/O above)
        for c in 0..k {
            e.goto(c as i64);
            e.out.push_str(*r.pick(&["-", "+"]));
        }
        if r.below(2) == 0 {
            // a far move in the middle (runtime call with many live registers)
            e.out.push_str(&rep('>', 40));
            e.out.push_str("+.");
            e.out.push_str(&rep('<', 40));
        }
        for c in (0..k).rev() {
            e.goto(c as i64);
            e.out.push('.');
        }
        if !out.contains(&e.out) {
            out.push(e.out);
        }
    }
    out
}

// ---------------------------------------------------------------------------------
// ROT: k-cell rotations with arithmetic inside an input-controlled loop.  The optimiser
// emits the cycle as one simultaneous assignment, which needs k temporaries at once:
// k >= 12 forces stack temporaries (index >= 11) in the JIT.

pub fn gen_rot(seed: u64, count: usize) -> Vec<String> {
    let mut r = Rng::new(seed ^ 0x2077);
    let mut out = Vec::new();
    let mut tries = 0;
    while out.len() < count && tries < count * 10 {
        tries += 1;
        let k = *r.pick(&[3i64, 5, 8, 11, 12, 13, 14, 16]);
        let t = k + 1; // rotation temporary
        let t2 = k + 2; // scratch for products
        let mut e = Emit { out: String::new(), pos: 0 };
        e.out.push(',');
        for c in 1..=k {
            e.goto(c);
            e.out.push_str(*r.pick(&[",", ",", "+++", ",+"]));
        }
        e.goto(0);
        e.out.push('[');
        // c1 -> t, possibly scaled
        e.goto(1);
        e.out.push_str("[-");
        e.add_const(t, *r.pick(&[1i64, 1, 2, 3]));
        e.goto(1);
        e.out.push(']');
        for i in 2..=k {
            match r.below(10) {
                0 | 1 => {
                    // c_{i-1} += m * c_i
                    let m = *r.pick(&[2i64, 3, -1, 5]);
                    e.goto(i);
                    e.out.push_str("[-");
                    e.add_const(i - 1, m);
                    e.goto(i);
                    e.out.push(']');
                }
                2 if i < k => {
                    // c_{i-1} += c_i * c_{i+1}, c_{i+1} preserved through t2
                    e.goto(i);
                    e.out.push_str("[-");
                    e.goto(i + 1);
                    e.out.push_str("[-");
                    e.add_const(i - 1, 1);
                    e.add_const(t2, 1);
                    e.goto(i + 1);
                    e.out.push(']');
                    e.goto(t2);
                    e.out.push_str("[-");
                    e.add_const(i + 1, 1);
                    e.goto(t2);
                    e.out.push(']');
                    e.goto(i);
                    e.out.push(']');
                }
                3 if i < k => {
                    // feeds two cells
                    e.goto(i);
                    e.out.push_str("[-");
                    e.add_const(i - 1, 1);
                    e.add_const(i + 1, 1);
                    e.goto(i);
                    e.out.push(']');
                }
                _ => {
                    e.goto(i);
                    e.out.push_str("[-");
                    e.add_const(i - 1, 1);
                    e.goto(i);
                    e.out.push(']');
                }
            }
            if r.below(14) == 0 {
                e.goto(i);
                e.out.push('.');
            }
        }
        // t -> c_k
        e.goto(t);
        e.out.push_str("[-");
        e.add_const(k, 1);
        e.goto(t);
        e.out.push(']');
        if r.below(4) == 0 {
            e.goto(1);
            e.out.push('.');
        }
        e.goto(0);
        e.out.push_str("-]");
        for c in 1..=k {
            e.goto(c);
            e.out.push('.');
        }
        if balanced(&e.out) && !out.contains(&e.out) {
            out.push(e.out);
        }
    }
    out
}

// ---------------------------------------------------------------------------------
// NEST: loops whose body contains an unbalanced (pointer-moving) inner loop followed by
// more loops and I/O at offsets that now name different cells - the situations in which
// facts about the enclosing loop's condition must be forgotten.

pub fn gen_nest(seed: u64, count: usize) -> Vec<String> {
    let mut r = Rng::new(seed ^ 0x4E57);
    let mut out = Vec::new();
    let mut tries = 0;
    let movers = [">[>>]<", ">[>]<", "<[<]>", "[>>]", ">>[<<]", ">[>]", "[<]", ">[>>]<<", ">>[>]<<", "<[<<]>"];
    let at0 = ["[.[-]]", "[-]", "[.-]", "[[-]+]", "[->+<]", "[.[-]]", "[>+<[-]]", "[,.[-]]", "[-.]"];
    let other = [">[.[-]]<", "<[.[-]]>", ">[-]<", ">+<", ">-<", ">.<", "<.>", ">,<"];
    let ops = ["+", "-", ".", ",", "--", "++"];
    let prefixes = ["+>+<", ",>,<", "+>>+<<", ">>+<<,", "+", ",", "+>+>+<<", ">+<+"];
    let suffixes = ["++++++++[>++++++++<-]>+.", ".>.<", ".", ">.>.", "+.>+.", ""];
    while out.len() < count && tries < count * 10 {
        tries += 1;
        let mut s = String::new();
        s.push_str(*r.pick(&prefixes));
        s.push('[');
        let n = 2 + r.below(3);
        let mut moved = false;
        for i in 0..n {
            let c = r.below(10);
            if (c < 3 && !moved) || (i == 0 && r.below(2) == 0) {
                s.push_str(*r.pick(&movers));
                moved = true;
            } else if c < 6 {
                s.push_str(*r.pick(&at0));
            } else if c < 8 {
                s.push_str(*r.pick(&other));
            } else {
                s.push_str(*r.pick(&ops));
            }
        }
        s.push_str(*r.pick(&["", "", "[-]", "-", "<"]));
        s.push(']');
        s.push_str(*r.pick(&suffixes));
        if balanced(&s) && s.len() <= 70 && !out.contains(&s) {
            out.push(s);
        }
    }
    out
}

// ---------------------------------------------------------------------------------
// SQLIVE: a product with the same cell on both sides (or two different cells), computed
// while two other values are kept alive in registers by uses before and after it.

pub fn gen_sqlive(seed: u64, count: usize) -> Vec<String> {
    let mut r = Rng::new(seed ^ 0x5011);
    let mut out = Vec::new();
    let mut tries = 0;
    while out.len() < count && tries < count * 10 {
        tries += 1;
        let mut e = Emit { out: String::new(), pos: 0 };
        let (x, b, c) = (0i64, 5i64, 6i64);
        for v in [x, b, c] {
            e.goto(v);
            e.out.push_str(*r.pick(&[",", ",", ",+"]));
        }
        // a linear combination of b and c into `dst`, preserving both (through `tmp`)
        let lin = |e: &mut Emit, r: &mut Rng, dst: i64, tmp: i64| {
            for v in [b, c] {
                let k = *r.pick(&[1i64, 1, 1, 1, 2, 3]);
                e.goto(v);
                e.out.push_str("[-");
                e.add_const(dst, k);
                e.add_const(tmp, 1);
                e.goto(v);
                e.out.push(']');
                e.goto(tmp);
                e.out.push_str("[-");
                e.add_const(v, 1);
                e.goto(tmp);
                e.out.push(']');
            }
            e.goto(dst);
            e.out.push('.');
        };
        lin(&mut e, &mut r, 8, 9);
        // the product into a far cell
        let target = *r.pick(&[21i64, 12, 30]);
        let second = if r.below(3) == 0 { b } else { x };
        if second == x {
            e.goto(x);
            e.out.push_str("[-");
            e.add_const(1, 1);
            e.add_const(2, 1);
            e.goto(x);
            e.out.push(']');
        } else {
            // x * b, b preserved
            e.goto(x);
            e.out.push_str("[-");
            e.add_const(1, 1);
            e.goto(x);
            e.out.push(']');
            e.goto(b);
            e.out.push_str("[-");
            e.add_const(2, 1);
            e.add_const(3, 1);
            e.goto(b);
            e.out.push(']');
            e.goto(3);
            e.out.push_str("[-");
            e.add_const(b, 1);
            e.goto(3);
            e.out.push(']');
        }
        e.goto(1);
        e.out.push_str("[-");
        e.goto(2);
        e.out.push_str("[-");
        e.add_const(target, 1);
        e.add_const(3, 1);
        e.goto(2);
        e.out.push(']');
        e.goto(3);
        e.out.push_str("[-");
        e.add_const(2, 1);
        e.goto(3);
        e.out.push(']');
        e.goto(1);
        e.out.push(']');
        e.goto(target);
        e.out.push('.');
        e.goto(x);
        e.out.push('.');
        lin(&mut e, &mut r, 10, 9);
        if r.below(4) == 0 {
            e.goto(2);
            e.out.push('.');
        }
        if balanced(&e.out) && !out.contains(&e.out) {
            out.push(e.out);
        }
    }
    out
}

/// DSE: a store, a barrier, a second store at the same *relative* offset, then a dump of the
/// neighbourhood.  The bytecode generator's dead-store and zeroing-move passes must treat every
/// pointer-moving or branching instruction as a barrier; this family places both stores around each
/// kind of barrier (scans that really move, plain moves, loops, nested clears) for each small offset,
/// with constant and input-dependent stores; and, for the optimiser's own dead-store elimination, a store, an `if` that may overwrite it and a permutation of the cells.  Deterministic (no seed), 176 programs.
pub fn gen_dse() -> Vec<String> {
    let prefix = "<<++>+++>+>++++>+++++<<";
    let at = |k: i32, body: &str| -> String {
        let (mv, back) = if k > 0 { (">".repeat(k as usize), "<".repeat(k as usize)) } else { ("<".repeat((-k) as usize), ">".repeat((-k) as usize)) };
        format!("{}{}{}", mv, body, back)
    };
    let barriers = ["[>]", "[<]", "[>>]", "[<<]", ">", "<<", "[->>+<<]", "[[-]]"];
    let first = ["[-]+++++++", ","];
    let second = ["[-]++", ","];
    let mut out = Vec::new();
    for s in barriers {
        for k in [-1, 0, 1, 2] {
            for a in first {
                for c in second {
                    out.push(format!("{}{}{}{}<<.>.>.>.>.", prefix, at(k, a), s, at(k, c)));
                }
            }
        }
    }
    // the optimiser's own dead-store elimination: a store, an `if` that may overwrite one of the cells,
    // then a permutation of the cells (mutually dependent assignments emitted as one group), then a dump
    let stores = ["+++++>,<", ",>+++<", "+++++>++<", ",>,<"];
    let ifs = ["<<<[-]+++++++>>>", "<<[-]+++++++>>", "<<<++>>>", "<[-]+>"];
    let perms = ["[->>+<<]>[-<+>]>[-<+>]<<", "[->>+<<]>>>[-]<<[->>+<<]<[->+<]>>[-<<+>>]>[-<<+>>]<<<", "[->+>+<<]>>[-<<+>>]<<"];
    for s in stores {
        for i in ifs {
            for p in perms {
                out.push(format!("{}>>>,[{}[-]]<<<{}+.>+.>.", s, i, p));
            }
        }
    }
    out
}

/// GEO: counted loops that update a cell as `y = k*y + d` (a geometric closed form in the
/// optimiser), with constant and input-dependent counts and start values, and a two-cell linear
/// recurrence; triangular / cubic accumulations (x += d; y += x; z += y); counted loops with an odd step > 1 and a full-width zero test of the trip count.  Deterministic, 183 programs.
pub fn gen_geo() -> Vec<String> {
    let mut out = Vec::new();
    let body = |k: usize, d: usize| format!("[->[->{}<]>[-<+>]<{}<]", "+".repeat(k), "+".repeat(d));
    for n in [2usize, 3, 5, 8, 9, 13] {
        for k in [2usize, 3, 5] {
            for d in [0usize, 1, 3] {
                // constant count, constant start
                out.push(format!("{}>+<{}>.", "+".repeat(n), body(k, d)));
                // constant count, start value from the input
                out.push(format!("{}>,<{}>.<.", "+".repeat(n), body(k, d)));
            }
        }
    }
    for k in [2usize, 3] {
        for d in [0usize, 1] {
            // count from the input
            out.push(format!(",>+<{}>.", body(k, d)));
            out.push(format!(",>,<{}>.", body(k, d)));
        }
    }
    // triangular and higher closed forms: each iteration x += d; y += x (and z += y)
    let acc = "[->+>+<<]>>[-<<+>>]<<"; // add the current cell to the next one, preserving it
    for n in [2usize, 3, 5, 8, 13] {
        for d in [1usize, 2, 3] {
            out.push(format!("{}[->{}{}<]>>.", "+".repeat(n), "+".repeat(d), acc));
            out.push(format!("{}>,<[->{}{}<]>.>.", "+".repeat(n), "+".repeat(d), acc));
        }
        out.push(format!("{}[->+{}>{}<<]>>>.", "+".repeat(n), acc, acc));
    }
    for d in [1usize, 2] {
        out.push(format!(",[->{}{}<]>>.", "+".repeat(d), acc));
        out.push(format!(",>,<[->{}{}>{}<<]>.>.>.", "+".repeat(d), acc, acc));
    }
    // counted loops whose counter goes down by an odd step s > 1: the optimiser's trip count is
    // counter * inverse(s) (2-adic division, `wrapping_inv`), and the quotient is then tested for
    // zero at full width, so a wrong high bit of the inverse shows (seeded change C01f: an inverse
    // that is exact only up to 48 bits).  Counter: a constant s*q; s*q behind a branch on the
    // input (the trip count is not a compile-time constant); the raw input.  24 programs.
    for st in [3usize, 5, 7, 11] {
        for q in [1usize, 2] {
            let tail = format!("[{}>+<]>{}[[-]<+++.>]<++.", "-".repeat(st), "-".repeat(q));
            out.push(format!("{}{}", "+".repeat(st * q), tail));
            out.push(format!(">>,[[-]<<{}>>]<<{}", "+".repeat(st * q), tail));
            out.push(format!(",{}", tail));
        }
    }
    // x, y = y, x + y  (n steps)
    for n in [3usize, 7, 12, 20] {
        out.push(format!("{}>+>+<<[->>[->+>+<<]<[->+<]>>>[-<<<+>>>]<[-<+>]<<<]>.>.", "+".repeat(n)));
    }
    out
}

/// DEEP: bracket nesting of a few hundred levels (the property texts speak of "hundreds, not
/// thousands"), around the 8-bit boundary, both inside a loop that is skipped (the matching
/// bracket has to be found by counting) and in loops that are entered.  Deterministic, 20 programs.
pub fn gen_deep() -> Vec<String> {
    let mut out = Vec::new();
    for d in [64usize, 127, 128, 255, 256, 257, 300] {
        // skipped: the outer loop is not entered, the text inside must be stepped over
        out.push(format!("[{}+.{}]++.", "[".repeat(d), "]".repeat(d)));
        // skipped after an input-dependent test
        out.push(format!(",[-]{}>+.<{}+++.", "[".repeat(d), "]".repeat(d)));
    }
    for d in [64usize, 128, 256, 300] {
        // entered: every level runs once
        out.push(format!("+{}-{}++.", "[".repeat(d), "]".repeat(d)));
    }
    for d in [100usize, 260] {
        // entered with an input byte, body visible at the innermost level
        out.push(format!(",{}.[-]{}+.", "[".repeat(d), "]".repeat(d)));
    }
    out
}

/// COVER: corpus programs (of the generated families, seed 1) that reach regions of opt.rs, bc.rs,
/// ir.rs and the JIT's code generator which the first ~90 programs of every family do not reach
/// (found once with a coverage-instrumented build, `tools/cover_order.py`); listed explicitly so that
/// the quick tier's time box always includes them.
pub fn cover_programs() -> Vec<String> {
    include_str!("cover_programs.txt").lines().filter(|l| !l.trim().is_empty()).map(|l| l.to_string()).collect()
}
