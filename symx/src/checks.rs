//! Check drivers over the E1 core: one job = one (program, width); all subject
//! configurations of the property run on every explored path of that job.

use crate::engine::{self, explore, Abort, HashMode, IoCfg, Limits, PathEnd};
use crate::native::Case;
use crate::product::{self, compare, concretise, run_ref, run_sub, Cmp};
use crate::refbf::RefStatus;
use crate::solver::{Kind, Stats};
use crate::subject::{self, Backend, Mode, Ret};
use crate::symcell::SymCell;
use hpbf::exec::Executable;
use std::panic::{catch_unwind, AssertUnwindSafe};
use std::sync::atomic::{AtomicUsize, Ordering};
use std::sync::Mutex;
use std::time::Instant;

#[derive(Clone, Debug)]
pub struct Spec {
    pub backend: Backend,
    pub level: u32,
    pub mode: Mode,
    pub no_input: bool,
    pub no_output: bool,
    /// for limited mode: the run must report finished if the reference halts
    pub must_finish: bool,
    /// run this configuration only on reference paths of this kind
    pub only_on: Option<OnlyOn>,
}

#[derive(Clone, Copy, Debug, PartialEq)]
pub enum OnlyOn {
    Halted,
    Divergent,
}

impl Spec {
    pub fn full(backend: Backend, level: u32) -> Spec {
        Spec { backend, level, mode: Mode::Full, no_input: false, no_output: false, must_finish: false, only_on: None }
    }
    pub fn limited(backend: Backend, level: u32, budget: usize) -> Spec {
        Spec { mode: Mode::Limited(budget), ..Spec::full(backend, level) }
    }
    pub fn label(&self) -> String {
        format!("{}/L{}/{:?}{}{}", self.backend.name(), self.level, self.mode, if self.no_input { "/noin" } else { "" }, if self.no_output { "/noout" } else { "" })
    }
}

#[derive(Clone, Debug)]
pub struct Job {
    pub tag: String,
    pub code: String,
    pub width: u32,
    /// refused output is signalled with Ok(0) instead of Err
    pub ok0: bool,
    /// guard-page placement for tape/context blocks during subject runs (0 off, 1 right, 2 left)
    pub guard: u8,
}

#[derive(Clone, Debug)]
pub struct JobCfg {
    pub property: String,
    pub limits: Limits,
    pub io: IoCfg,
    pub ref_steps: u64,
    pub solver: Kind,
    pub timeout_ms: u64,
    pub detect_divergence: bool,
    /// what to do with reference paths by status
    pub want: Want,
    pub profile: String,
    pub job_time_cap_s: u64,
    /// C13: execute every subject twice on fresh contexts; the two event logs must be identical terms
    pub twice: bool,
}

#[derive(Clone, Copy, Debug, PartialEq)]
pub enum Want {
    /// equivalence on halted (or cleanly faulted) reference paths
    Halted,
    /// C07: halted and divergent paths, limited mode semantics
    Limited,
    /// C05: divergent paths only must stay unfinished; halted must return
    Divergence,
}

#[derive(Default, Debug, Clone)]
pub struct JobOut {
    pub tag: String,
    pub code: String,
    pub width: u32,
    pub paths: usize,
    pub dropped_items: usize,
    pub ref_halted: usize,
    pub ref_faulted: usize,
    pub ref_divergent: usize,
    pub ref_truncated: usize,
    pub path_truncated: usize,
    pub sub_runs: usize,
    pub sub_truncated: usize,
    pub compared: usize,
    pub decisions: u64,
    pub inconclusive: Vec<String>,
    pub candidates: Vec<Case>,
    pub build_panics: Vec<String>,
    pub stats: Stats,
    pub wall_s: f64,
    pub sample: Option<String>,
    pub recompilations: usize,
    pub objdump_checked: usize,
}

enum SubEnd {
    Out(product::SubOutcome),
    Abort(Abort),
    Panic(String),
}

struct PathOut {
    ref_status: RefStatus,
    sub_runs: usize,
    sub_truncated: usize,
    compared: usize,
    inconclusive: Vec<String>,
    candidates: Vec<Case>,
    sample: Option<String>,
}

fn mk_case(cfg: &JobCfg, job: &Job, spec: &Spec, env: &product::ConcreteEnv, note: String) -> Case {
    Case {
        property: cfg.property.clone(),
        backend: spec.backend,
        width: job.width,
        level: spec.level,
        mode: spec.mode,
        program: job.code.clone(),
        input: env.input.clone(),
        fail_read_at: env.fail_read_at,
        fail_write_at: env.fail_write_at,
        out_ok0: cfg.io.out_fault_ok0,
        no_input: spec.no_input,
        no_output: spec.no_output,
        note,
        profile: cfg.profile.clone(),
        guard: job.guard,
    }
}

pub fn run_job(job: &Job, specs: &[Spec], cfg: &JobCfg) -> JobOut {
    match job.width {
        8 => run_job_w::<8>(job, specs, cfg),
        16 => run_job_w::<16>(job, specs, cfg),
        32 => run_job_w::<32>(job, specs, cfg),
        _ => run_job_w::<64>(job, specs, cfg),
    }
}

fn run_job_w<const B: u32>(job: &Job, specs: &[Spec], cfg: &JobCfg) -> JobOut {
    let t0 = Instant::now();
    let mut io = cfg.io.clone();
    io.out_fault_ok0 = job.ok0;
    let cfg = &JobCfg { io: io.clone(), ..cfg.clone() };
    engine::init(cfg.solver, cfg.timeout_ms, cfg.limits.clone(), HashMode::Concrete, io);
    engine::with(|c| {
        c.width = B as u8;
        c.job_deadline = Some(Instant::now() + std::time::Duration::from_secs(cfg.job_time_cap_s));
    });
    let mut out = JobOut { tag: job.tag.clone(), code: job.code.clone(), width: job.width, ..Default::default() };
    // compile every subject once (totality: a panic here is a finding)
    let mut execs: Vec<Option<Box<dyn Executable<SymCell<B>> + '_>>> = Vec::new();
    let mut jits: Vec<Option<crate::x86env::JitProg>> = Vec::new();
    // Compile-time canary: the optimiser at the highest level of this job, on SymCell constants, under a time cap
    // (the engine can abort SymCell arithmetic; it cannot abort the native compilations below, so a program
    // whose compilation does not finish is stopped here and never reaches them).
    let compile_cap = std::time::Duration::from_secs(if cfg.limits.max_paths > 512 { 30 } else { 10 });
    let max_level = specs.iter().filter(|s| s.backend != Backend::Inplace).map(|s| s.level).max();
    let mut compile_timeout = false;
    if let Some(l) = max_level {
        engine::with(|c| c.compile_deadline = Some(Instant::now() + compile_cap));
        let r = catch_unwind(AssertUnwindSafe(|| subject::build::<SymCell<B>>(Backend::Bc, &job.code, l).is_ok()));
        engine::with(|c| c.compile_deadline = None);
        if let Err(payload) = r {
            if let Ok(a) = payload.downcast::<Abort>() {
                if format!("{:?}", a).contains("compilation exceeded") {
                    compile_timeout = true;
                }
            }
        }
    }
    if compile_timeout {
        let spec = specs.iter().find(|s| s.backend != Backend::Inplace && Some(s.level) == max_level).unwrap();
        let note = format!("compile-timeout: building the executor for this {}-character program did not finish within {} s", job.code.len(), compile_cap.as_secs());
        if cfg.property == "C13" {
            out.candidates.push(mk_case(cfg, job, spec, &product::ConcreteEnv::default(), note));
        } else {
            out.inconclusive.push(format!("{}: {}", spec.label(), note));
        }
        out.path_truncated += 1;
        return out;
    }
    for spec in specs {
        if spec.backend == Backend::Jit {
            // the real JIT compiles natively (real cell type); its machine code runs in the x86 model
            engine::LAST_PANIC.with(|p| *p.borrow_mut() = None);
            let limited = matches!(spec.mode, Mode::Limited(_));
            let safe = !matches!(spec.mode, Mode::Unsafe(_));
            let r = catch_unwind(AssertUnwindSafe(|| crate::x86env::build(&job.code, B, spec.level, limited, safe)));
            match r {
                Ok(Ok(p)) => {
                    if std::env::var("SYMX_OBJDUMP").is_ok() {
                        // decoder cross-check: same instruction boundaries as GNU objdump
                        match (crate::x86env::model_boundaries(&p.code), crate::x86env::objdump_boundaries(&p.code)) {
                            (Ok(a), Some(b)) => {
                                out.objdump_checked += 1;
                                if a != b {
                                    out.inconclusive.push(format!("{}: the x86 model and objdump disagree on the instruction boundaries of the emitted code", spec.label()));
                                }
                            }
                            (Err(e), _) => out.inconclusive.push(format!("{}: decoder: {}", spec.label(), e)),
                            (_, None) => out.inconclusive.push(format!("{}: objdump not available for the cross-check", spec.label())),
                        }
                    }
                    jits.push(Some(p))
                }
                Ok(Err(e)) => {
                    out.candidates.push(mk_case(cfg, job, spec, &product::ConcreteEnv::default(), format!("create returned an error on a balanced program: {}", e)));
                    jits.push(None);
                }
                Err(_) => {
                    let msg = engine::LAST_PANIC.with(|p| p.borrow_mut().take()).unwrap_or_else(|| "panic".into());
                    out.build_panics.push(format!("{}: {}", spec.label(), msg));
                    out.candidates.push(mk_case(cfg, job, spec, &product::ConcreteEnv::default(), format!("panic while building the executor: {}", msg)));
                    jits.push(None);
                }
            }
            execs.push(None);
            continue;
        }
        jits.push(None);
        engine::LAST_PANIC.with(|p| *p.borrow_mut() = None);
        let r = catch_unwind(AssertUnwindSafe(|| subject::build::<SymCell<B>>(spec.backend, &job.code, spec.level)));
        match r {
            Ok(Ok(e)) => execs.push(Some(e)),
            Ok(Err(e)) => {
                out.candidates.push(mk_case(cfg, job, spec, &product::ConcreteEnv::default(), format!("create returned an error on a balanced program: {}", e)));
                execs.push(None);
            }
            Err(payload) => {
                let msg = match payload.downcast::<Abort>() {
                    Ok(a) => format!("engine abort during compilation: {:?}", a),
                    Err(_) => engine::LAST_PANIC.with(|p| p.borrow_mut().take()).unwrap_or_else(|| "panic".into()),
                };
                if msg.starts_with("engine abort") {
                    out.inconclusive.push(format!("{}: {}", spec.label(), msg));
                } else {
                    out.build_panics.push(format!("{}: {}", spec.label(), msg));
                    out.candidates.push(mk_case(cfg, job, spec, &product::ConcreteEnv::default(), format!("panic while building the executor: {}", msg)));
                }
                execs.push(None);
            }
        }
    }
    if cfg.twice {
        // C13 re-compilation monitor (sampling of hash seeds, not solver-decided): every std
        // HashMap/HashSet instance draws its own keys, so compiling again in this process
        // varies them; the renderings must be identical
        let mut seen = std::collections::HashSet::new();
        for spec in specs {
            if !seen.insert((spec.backend, spec.level)) || spec.backend == Backend::Inplace {
                continue;
            }
            let r = catch_unwind(AssertUnwindSafe(|| {
                let first = subject::compiled_rendering_w(spec.backend, &job.code, spec.level, job.width);
                for _ in 0..3 {
                    let again = subject::compiled_rendering_w(spec.backend, &job.code, spec.level, job.width);
                    if again != first {
                        return true;
                    }
                }
                false
            }));
            out.recompilations += 4;
            if let Ok(true) = r {
                out.candidates.push(mk_case(cfg, job, spec, &product::ConcreteEnv::default(), "nondeterministic-compile: the printed bytecode / machine code differs between two compilations of the same (source, width, level) in one process".into()));
            }
        }
    }
    let no_input_ref = specs.iter().all(|s| s.no_input);
    let no_output_ref = specs.iter().all(|s| s.no_output);
    let exploration = explore(|| {
        let r = run_ref(B as u8, &job.code, cfg.ref_steps, cfg.detect_divergence, no_input_ref, no_output_ref);
        let mut po = PathOut { ref_status: r.run.status.clone(), sub_runs: 0, sub_truncated: 0, compared: 0, inconclusive: vec![], candidates: vec![], sample: None };
        let relevant = match (&r.run.status, cfg.want) {
            (RefStatus::Halted, _) | (RefStatus::Faulted, _) => true,
            (RefStatus::Divergent { .. }, Want::Limited) | (RefStatus::Divergent { .. }, Want::Divergence) => true,
            (RefStatus::Truncated, Want::Limited) => true, // prefix check only
            _ => false,
        };
        if !relevant {
            return po;
        }
        let ref_reads = r.events.iter().filter(|e| matches!(e, engine::Event::In | engine::Event::InFail)).count() as u32;
        for (si, (spec, exec)) in specs.iter().zip(execs.iter()).enumerate() {
            let jit = jits[si].as_ref();
            if exec.is_none() && jit.is_none() {
                continue;
            }
            match (spec.only_on, &r.run.status) {
                (Some(OnlyOn::Halted), RefStatus::Halted | RefStatus::Faulted) => {}
                (Some(OnlyOn::Divergent), RefStatus::Divergent { .. }) => {}
                (None, _) => {}
                _ => continue,
            }
            // unsafe mode with region 0 = "derive the region from the canonical excursion on this path"
            let mut spec_eff = spec.clone();
            if let Mode::Unsafe(0) = spec.mode {
                let exc = r.run.min_ptr.unsigned_abs().max(r.run.max_ptr.unsigned_abs()) as isize;
                spec_eff.mode = Mode::Unsafe(unsafe_region(exc, job.code.len()));
            }
            let spec = &spec_eff;
            // with mixed no_input/no_output specs the reference is run per spec
            let mut r_events: Vec<engine::Event>;
            let r_status: RefStatus;
            if spec.no_input != no_input_ref || spec.no_output != no_output_ref {
                let rr = run_ref(B as u8, &job.code, cfg.ref_steps, cfg.detect_divergence, spec.no_input, spec.no_output);
                r_events = rr.events;
                r_status = rr.run.status;
            } else {
                r_events = r.events.clone();
                r_status = r.run.status.clone();
            }
            engine::with(|c| c.ops = 0);
            engine::LAST_PANIC.with(|p| *p.borrow_mut() = None);
            if job.guard != 0 {
                // what is about to run, for the fault handler: the witness fixes the whole path
                let w0 = engine::with(|c| c.wit.clone());
                let env0 = concretise(&w0, ref_reads.max(8));
                crate::guard::set_case(&mk_case(cfg, job, spec, &env0, "guard-page fault during symbolic execution".into()).to_json().to_string());
                crate::guard::set_mode(job.guard);
            }
            let max_ops = cfg.limits.max_ops;
            crate::guard::track_begin();
            let res = catch_unwind(AssertUnwindSafe(|| match (exec, jit) {
                (Some(e), _) => run_sub::<B>(&**e, spec.mode, spec.no_input, spec.no_output),
                (None, Some(j)) => crate::x86env::run(j, spec.mode, spec.no_input, spec.no_output, max_ops),
                _ => unreachable!(),
            }));
            crate::guard::track_end(res.is_err());
            crate::guard::set_mode(0);
            let end = match res {
                Ok(o) => SubEnd::Out(o),
                Err(payload) => match payload.downcast::<Abort>() {
                    Ok(a) => SubEnd::Abort(*a),
                    Err(_) => SubEnd::Panic(engine::LAST_PANIC.with(|p| p.borrow_mut().take()).unwrap_or_else(|| "panic".into())),
                },
            };
            po.sub_runs += 1;
            let wit = engine::with(|c| c.wit.clone());
            let env_now = |extra_reads: u32| concretise(&wit, ref_reads.max(extra_reads));
            match end {
                SubEnd::Panic(msg) => {
                    po.candidates.push(mk_case(cfg, job, spec, &env_now(0), format!("panic during execution: {}", msg)));
                }
                SubEnd::Abort(Abort::Inconclusive(s)) => po.inconclusive.push(format!("{}: {}", spec.label(), s)),
                SubEnd::Abort(Abort::Truncated(s)) => {
                    po.sub_truncated += 1;
                    // the subject ran far longer than the (halted) reference: candidate non-termination,
                    // believed only after native replay under a wall-clock limit
                    if s.contains("cell-operation cap") && matches!(r_status, RefStatus::Halted | RefStatus::Faulted) && !matches!(spec.mode, Mode::Limited(_)) {
                        po.candidates.push(mk_case(cfg, job, spec, &env_now(0), "subject exceeded the operation cap on a path where the canonical run halts (candidate non-termination)".into()));
                    }
                    if let Mode::Limited(b) = spec.mode {
                        if s.contains("cell-operation cap") && b <= 4096 {
                            po.candidates.push(mk_case(cfg, job, spec, &env_now(0), "limited execution exceeded the operation cap (candidate: running time not bounded by the budget)".into()));
                        }
                    }
                }
                SubEnd::Out(o) => {
                    if !o.seam_errors.is_empty() {
                        po.inconclusive.push(format!("{}: I/O seam: {}", spec.label(), o.seam_errors.join("; ")));
                        continue;
                    }
                    if cfg.twice {
                        engine::with(|c| c.ops = 0);
                        let res2 = catch_unwind(AssertUnwindSafe(|| match (exec, jit) {
                            (Some(e), _) => run_sub::<B>(&**e, spec.mode, spec.no_input, spec.no_output),
                            (None, Some(j)) => crate::x86env::run(j, spec.mode, spec.no_input, spec.no_output, max_ops),
                            _ => unreachable!(),
                        }));
                        match res2 {
                            Ok(o2) => {
                                if o2.events != o.events || o2.ret != o.ret {
                                    po.candidates.push(mk_case(cfg, job, spec, &env_now(0), format!("re-execution differs: first {:?} {:?}, second {:?} {:?}", o.ret, product::show_events(&o.events), o2.ret, product::show_events(&o2.events))));
                                }
                            }
                            Err(payload) => match payload.downcast::<Abort>() {
                                Ok(a) => po.inconclusive.push(format!("{}: second execution: {:?}", spec.label(), a)),
                                Err(_) => po.candidates.push(mk_case(cfg, job, spec, &env_now(0), "panic during re-execution".into())),
                            },
                        }
                    }
                    let sub_reads = o.events.iter().filter(|e| matches!(e, engine::Event::In | engine::Event::InFail)).count() as u32;
                    if let RefStatus::Divergent { period_writes, .. } = r_status {
                        // extend the recorded reference log periodically (no input is consumed in the period)
                        let p = period_writes as usize;
                        if p > 0 && r_events.len() >= p {
                            let period: Vec<engine::Event> = r_events[r_events.len() - p..].to_vec();
                            while r_events.len() < o.events.len() + 1 {
                                r_events.extend(period.iter().cloned());
                            }
                        }
                    }
                    let cmp = compare(&r_events, &o.events);
                    po.compared += 1;
                    if po.sample.is_none() && !r_events.is_empty() {
                        po.sample = Some(format!("ref={:?} sub[{}]={:?}", product::show_events(&r_events), spec.label(), product::show_events(&o.events)));
                    }
                    let mut report = |w: &crate::term::Witness, note: String| {
                        let env = concretise(w, ref_reads.max(sub_reads));
                        po.candidates.push(mk_case(cfg, job, spec, &env, note));
                    };
                    match (&cmp, &r_status, spec.mode) {
                        (Cmp::Unknown(s), _, _) => po.inconclusive.push(format!("{}: solver: {}", spec.label(), s)),
                        (Cmp::Differ(w, d), _, _) => report(w, d.clone()),
                        // ---- full / unsafe execution against a halted reference
                        (_, RefStatus::Halted | RefStatus::Faulted, Mode::Full | Mode::Unsafe(_)) => {
                            if o.ret != Ret::Ok {
                                report(&wit, format!("call returned {:?}", o.ret));
                            } else if !matches!(cmp, Cmp::Equal) {
                                report(&wit, format!("event sequences have different lengths ({:?}): reference {:?} subject {:?}", cmp, product::show_events(&r_events), product::show_events(&o.events)));
                            }
                        }
                        (_, RefStatus::Divergent { .. }, Mode::Full | Mode::Unsafe(_)) => {
                            report(&wit, "unlimited execution returned on a path where the canonical run provably diverges".into());
                        }
                        // ---- limited execution
                        (_, RefStatus::Halted | RefStatus::Faulted, Mode::Limited(_)) => match o.ret {
                            Ret::Finished(true) => {
                                if !matches!(cmp, Cmp::Equal) {
                                    report(&wit, format!("reported finished but events are not the complete canonical sequence ({:?})", cmp));
                                }
                            }
                            Ret::Finished(false) => {
                                if matches!(cmp, Cmp::RefIsPrefix) {
                                    report(&wit, "interrupted run produced more events than the complete canonical run".into());
                                } else if spec.must_finish {
                                    report(&wit, "must-finish: reported interrupted under an effectively unlimited budget although the canonical run halts".into());
                                }
                            }
                            ref other => report(&wit, format!("call returned {:?}", other)),
                        },
                        (_, RefStatus::Divergent { .. }, Mode::Limited(_)) => match o.ret {
                            Ret::Finished(true) => report(&wit, "reported finished on a path where the canonical run provably diverges".into()),
                            Ret::Finished(false) => {
                                // events must be a prefix of the periodic reference stream (extended above)
                                if matches!(cmp, Cmp::RefIsPrefix) {
                                    report(&wit, "interrupted run on a divergent path produced events beyond the canonical periodic stream".into());
                                }
                            }
                            ref other => report(&wit, format!("call returned {:?}", other)),
                        },
                        (_, RefStatus::Truncated, Mode::Limited(_)) => {
                            if let Ret::Finished(true) = o.ret {
                                if matches!(cmp, Cmp::SubIsPrefix) {
                                    report(&wit, "reported finished with fewer events than the canonical run has already produced".into());
                                }
                            }
                        }
                        _ => {}
                    }
                }
            }
        }
        po
    });
    out.paths = exploration.paths.len();
    out.dropped_items = exploration.dropped_items;
    for p in exploration.paths {
        out.decisions += p.decisions as u64;
        match p.end {
            PathEnd::Done(po) => {
                match po.ref_status {
                    RefStatus::Halted => out.ref_halted += 1,
                    RefStatus::Faulted => out.ref_faulted += 1,
                    RefStatus::Divergent { .. } => out.ref_divergent += 1,
                    RefStatus::Truncated => out.ref_truncated += 1,
                }
                out.sub_runs += po.sub_runs;
                out.sub_truncated += po.sub_truncated;
                out.compared += po.compared;
                out.inconclusive.extend(po.inconclusive);
                out.candidates.extend(po.candidates);
                if out.sample.is_none() {
                    out.sample = po.sample;
                }
            }
            PathEnd::Abort(Abort::Truncated(_)) => out.path_truncated += 1,
            PathEnd::Abort(Abort::Inconclusive(s)) => out.inconclusive.push(format!("reference: {}", s)),
            PathEnd::Panic(s) => out.inconclusive.push(format!("engine panic: {}", s)),
        }
    }
    drop(execs);
    {
        // keep the first candidate per subject configuration (paths are explored shortest-first)
        let mut seen = std::collections::HashSet::new();
        out.candidates.retain(|c| seen.insert(format!("{}|{}|{:?}|{}|{}", c.backend.name(), c.level, c.mode, c.no_input, c.no_output)));
    }
    out.stats = engine::take_stats();
    out.wall_s = t0.elapsed().as_secs_f64();
    out
}

/// Run all jobs on `threads` workers (each worker owns one solver process).
pub fn run_jobs(jobs: &[Job], specs_for: &(dyn Fn(&Job) -> Vec<Spec> + Sync), cfg: &JobCfg, threads: usize, deadline: Option<Instant>) -> (Vec<JobOut>, usize) {
    let next = AtomicUsize::new(0);
    let results: Mutex<Vec<JobOut>> = Mutex::new(Vec::new());
    let skipped = AtomicUsize::new(0);
    std::thread::scope(|s| {
        for _ in 0..threads {
            let b = std::thread::Builder::new().stack_size(1 << 30);
            b.spawn_scoped(s, || {
                crate::guard::init_thread();
                loop {
                let i = next.fetch_add(1, Ordering::SeqCst);
                if i >= jobs.len() {
                    break;
                }
                if let Some(d) = deadline {
                    if Instant::now() > d {
                        skipped.fetch_add(1, Ordering::SeqCst);
                        continue;
                    }
                }
                let specs = specs_for(&jobs[i]);
                let trace = std::env::var("SYMX_TRACE_JOBS").is_ok();
                let rss0 = if trace { rss_kb() } else { 0 };
                let out = run_job(&jobs[i], &specs, cfg);
                if trace {
                    let rss1 = rss_kb();
                    if rss1 > rss0 + 200_000 || std::env::var("SYMX_TRACE_ALL").is_ok() {
                        eprintln!("live {} MB; RSS {} -> {} MB during job {} w{} [{}] {:?}", crate::guard::LIVE_BYTES.load(std::sync::atomic::Ordering::Relaxed) / (1 << 20), rss0 / 1024, rss1 / 1024, i, jobs[i].width, jobs[i].tag, crate::report::short(&jobs[i].code));
                    }
                }
                results.lock().unwrap().push(out);
            }})
            .unwrap();
        }
    });
    (results.into_inner().unwrap(), skipped.load(Ordering::SeqCst))
}

/// Region (cells on each side) for unsafe execution: canonical excursion plus the program
/// length as margin, rounded up so that the allocation is a whole number of pages for every width.
pub fn unsafe_region(excursion: isize, program_len: usize) -> isize {
    let need = excursion + program_len as isize + 1;
    // 2*m cells of 1..8 bytes: m a multiple of 2048 makes 2*m*w a multiple of 4096
    ((need + 2047) / 2048) * 2048
}

fn rss_kb() -> u64 {
    std::fs::read_to_string("/proc/self/statm").ok().and_then(|s| s.split_whitespace().nth(1).and_then(|x| x.parse::<u64>().ok())).map(|p| p * 4).unwrap_or(0)
}
