//! SMT-LIB2 over a pipe to one long-lived solver process (z3 -in / cvc5 --incremental).
//! All term and literal definitions live at the base level; queries are
//! `check-sat-assuming` over named Boolean constants, so nothing is ever popped.

use crate::term::{Arena, Atom, Lit, Node, Witness, T};
use std::io::{BufRead, BufReader, Write};
use std::process::{Child, ChildStdin, Command, Stdio};
use std::sync::mpsc::{channel, Receiver};
use std::time::Instant;

#[derive(Clone, Copy, PartialEq, Eq, Debug)]
pub enum Kind {
    Z3,
    Cvc5,
    Cvc5Int,
    /// cvc5 --solve-bv-as-int=sum, one fresh process per query (the integer encoding is
    /// fast stand-alone but stalls under --incremental)
    Cvc5IntOneShot,
    /// incremental z3 with a short cap; on `unknown` the same query is given one-shot to
    /// cvc5 (bit-blasting) and then to cvc5 --solve-bv-as-int=sum
    Portfolio,
}

#[derive(Debug, Clone, PartialEq)]
pub enum Answer {
    Sat,
    Unsat,
    Unknown(String),
}

#[derive(Default, Clone, Debug)]
pub struct Stats {
    pub queries: u64,
    pub sat: u64,
    pub unsat: u64,
    pub unknown: u64,
    pub seconds: f64,
    pub restarts: u64,
}

impl Stats {
    pub fn add(&mut self, o: &Stats) {
        self.queries += o.queries;
        self.sat += o.sat;
        self.unsat += o.unsat;
        self.unknown += o.unknown;
        self.seconds += o.seconds;
        self.restarts += o.restarts;
    }
}

pub struct Solver {
    pub kind: Kind,
    child: Child,
    stdin: ChildStdin,
    /// lines of the solver's stdout, fed by a reader thread (so that a solver that ignores its
    /// own time limit can be killed by a watchdog instead of blocking the worker forever)
    stdout: Receiver<String>,
    defined_terms: Vec<bool>,
    defined_atoms: Vec<bool>,
    declared_inputs: Vec<u32>,
    declared_vars: Vec<(u32, u8)>,
    declared_frees: Vec<u32>,
    pub stats: Stats,
    pub timeout_ms: u64,
    pub log: Option<std::fs::File>,
    script: String,
    /// anything sent since the last (re)start?  An untouched solver need not be restarted.
    dirty: bool,
    /// the process misbehaved (error / watchdog): the next reset must respawn it
    broken: bool,
}

fn spawn(kind: Kind, timeout_ms: u64) -> (Child, ChildStdin, Receiver<String>) {
    let mut cmd = match kind {
        Kind::Z3 | Kind::Portfolio => {
            let mut c = Command::new("/usr/bin/z3");
            c.arg("-in");
            c
        }
        Kind::Cvc5 => {
            let mut c = Command::new("cvc5");
            c.args(["--lang", "smt2", "--incremental", "--produce-models", &format!("--tlimit-per={}", timeout_ms)]);
            c
        }
        Kind::Cvc5IntOneShot => {
            // placeholder process (never queried); queries spawn their own solver
            let mut c = Command::new("cat");
            c.arg("-");
            c
        }
        Kind::Cvc5Int => {
            let mut c = Command::new("cvc5");
            c.args([
                "--lang",
                "smt2",
                "--incremental",
                "--produce-models",
                "--solve-bv-as-int=sum",
                &format!("--tlimit-per={}", timeout_ms),
            ]);
            c
        }
    };
    let mut child = cmd
        .stdin(Stdio::piped())
        .stdout(Stdio::piped())
        .stderr(Stdio::null())
        .spawn()
        .expect("cannot start solver");
    let stdin = child.stdin.take().unwrap();
    let mut out = BufReader::new(child.stdout.take().unwrap());
    let (tx, rx) = channel::<String>();
    std::thread::spawn(move || loop {
        let mut line = String::new();
        match out.read_line(&mut line) {
            Ok(0) | Err(_) => break,
            Ok(_) => {
                if tx.send(line).is_err() {
                    break;
                }
            }
        }
    });
    (child, stdin, rx)
}

impl Solver {
    pub fn new(kind: Kind, timeout_ms: u64) -> Solver {
        let (child, stdin, stdout) = spawn(kind, timeout_ms);
        let mut s = Solver {
            kind,
            child,
            stdin,
            stdout,
            defined_terms: vec![],
            defined_atoms: vec![],
            declared_inputs: vec![],
            declared_vars: vec![],
            declared_frees: vec![],
            stats: Stats::default(),
            timeout_ms,
            script: String::new(),
            dirty: false,
            broken: false,
            log: std::env::var("SYMX_SMT_LOG").ok().and_then(|p| std::fs::OpenOptions::new().create(true).append(true).open(p).ok()),
        };
        s.preamble();
        s
    }

    fn preamble(&mut self) {
        match self.kind {
            Kind::Z3 => {
                self.send("(set-option :produce-models true)\n");
                self.send(&format!("(set-option :timeout {})\n", self.timeout_ms));
            }
            Kind::Portfolio => {
                self.script.push_str("(set-logic ALL)\n");
                self.send_pipe("(set-option :produce-models true)\n");
                self.send_pipe(&format!("(set-option :timeout {})\n", self.timeout_ms.min(3000)));
            }
            _ => {
                self.send("(set-logic ALL)\n");
            }
        }
    }

    /// Forget everything (new arena).
    /// Forget everything (new arena), cheaply when possible: an untouched solver is kept as it
    /// is; a healthy z3 is cleared with `(reset)`; otherwise the process is respawned.
    pub fn reset(&mut self) {
        if !self.dirty && !self.broken {
            return;
        }
        if !self.broken && matches!(self.kind, Kind::Z3 | Kind::Portfolio) {
            // drain nothing: every query was answered; (reset) clears declarations and options
            self.dirty = false;
            self.send_pipe("(reset)\n");
            self.defined_terms.clear();
            self.defined_atoms.clear();
            self.declared_inputs.clear();
            self.declared_vars.clear();
            self.declared_frees.clear();
            self.script.clear();
            self.preamble();
            self.dirty = false;
            return;
        }
        self.hard_reset();
    }

    /// Kill and respawn the solver process.
    pub fn hard_reset(&mut self) {
        let _ = self.child.kill();
        let _ = self.child.wait();
        let (child, stdin, stdout) = spawn(self.kind, self.timeout_ms);
        self.child = child;
        self.stdin = stdin;
        self.stdout = stdout;
        self.broken = false;
        self.dirty = false;
        self.defined_terms.clear();
        self.defined_atoms.clear();
        self.declared_inputs.clear();
        self.declared_vars.clear();
        self.declared_frees.clear();
        self.stats.restarts += 1;
        self.script.clear();
        self.preamble();
        self.dirty = false;
    }

    fn send(&mut self, s: &str) {
        self.dirty = true;
        if let Some(l) = &mut self.log {
            let _ = l.write_all(s.as_bytes());
        }
        if self.kind == Kind::Cvc5IntOneShot {
            self.script.push_str(s);
            return;
        }
        if self.kind == Kind::Portfolio && !s.starts_with("(check-sat") && !s.starts_with("(get-value") {
            self.script.push_str(s);
        }
        self.send_pipe(s);
    }

    fn send_pipe(&mut self, s: &str) {
        self.stdin.write_all(s.as_bytes()).expect("solver pipe closed");
    }

    fn read_line(&mut self) -> String {
        let cap = std::time::Duration::from_millis(self.timeout_ms.min(if self.kind == Kind::Portfolio { 3000 } else { u64::MAX }) + 3000);
        match self.stdout.recv_timeout(cap) {
            Ok(line) => line.trim().to_string(),
            Err(std::sync::mpsc::RecvTimeoutError::Timeout) => "(error \"watchdog: the solver did not answer within its own time limit\")".to_string(),
            Err(_) => "(error \"solver closed pipe\")".to_string(),
        }
    }

    fn read_sexpr(&mut self) -> String {
        let mut out = String::new();
        let mut depth: i64 = 0;
        loop {
            let l = self.read_line();
            for ch in l.chars() {
                if ch == '(' {
                    depth += 1
                } else if ch == ')' {
                    depth -= 1
                }
            }
            out.push_str(&l);
            out.push(' ');
            if depth <= 0 {
                break;
            }
            if l.starts_with("(error \"solver closed") {
                break;
            }
        }
        out
    }

    fn define_term(&mut self, ar: &Arena, h: T) {
        if self.defined_terms.len() < ar.nodes.len() {
            self.defined_terms.resize(ar.nodes.len(), false);
        }
        if h == 0 || self.defined_terms[h as usize] {
            return;
        }
        let mut stack = vec![(h, false)];
        let mut buf = String::new();
        while let Some((t, expanded)) = stack.pop() {
            if t == 0 || self.defined_terms[t as usize] {
                continue;
            }
            if !expanded {
                stack.push((t, true));
                for c in ar.children(t) {
                    stack.push((c, false));
                }
                continue;
            }
            match ar.node(t) {
                Node::Input(k) => {
                    if !self.declared_inputs.contains(k) {
                        self.declared_inputs.push(*k);
                        buf.push_str(&format!("(declare-const in{} (_ BitVec 8))\n", k));
                    }
                }
                Node::Var(id) => {
                    let w = ar.width(t);
                    if !self.declared_vars.contains(&(*id, w)) {
                        self.declared_vars.push((*id, w));
                        buf.push_str(&format!("(declare-const v{}_{} (_ BitVec {}))\n", id, w, w));
                    }
                }
                Node::Ite(c, _, _) => {
                    if let Atom::Free(k) = ar.atoms[*c as usize] {
                        if !self.declared_frees.contains(&k) {
                            self.declared_frees.push(k);
                            buf.push_str(&format!("(declare-const f{} Bool)\n", k));
                        }
                    }
                }
                _ => {}
            }
            buf.push_str(&ar.smt_def(t));
            self.defined_terms[t as usize] = true;
        }
        if !buf.is_empty() {
            self.send(&buf);
        }
    }

    fn define_atom(&mut self, ar: &Arena, a: u32) {
        if self.defined_atoms.len() < ar.atoms.len() {
            self.defined_atoms.resize(ar.atoms.len(), false);
        }
        if self.defined_atoms[a as usize] {
            return;
        }
        for c in ar.atom_children(a) {
            self.define_term(ar, c);
        }
        if let Atom::Free(k) = ar.atoms[a as usize] {
            if !self.declared_frees.contains(&k) {
                self.declared_frees.push(k);
                self.send(&format!("(declare-const f{} Bool)\n", k));
            }
        }
        let s = format!("(declare-const b{} Bool)\n(assert (= b{} {}))\n", a, a, ar.smt_atom(a));
        self.send(&s);
        self.defined_atoms[a as usize] = true;
    }

    fn lit_str(l: Lit) -> String {
        if l.pos {
            format!("b{}", l.atom)
        } else {
            format!("(not b{})", l.atom)
        }
    }

    /// Is the conjunction of `lits` satisfiable?  On Sat, `model` (if given) is filled.
    pub fn check(&mut self, ar: &Arena, lits: &[Lit], model: Option<&mut Witness>) -> Answer {
        for l in lits {
            self.define_atom(ar, l.atom);
        }
        if self.kind == Kind::Cvc5IntOneShot {
            return self.check_oneshot(lits, model, &["--solve-bv-as-int=sum"]);
        }
        let mut q = String::from("(check-sat-assuming (");
        for l in lits {
            q.push_str(&Self::lit_str(*l));
            q.push(' ');
        }
        q.push_str("))\n");
        let t0 = Instant::now();
        self.send(&q);
        let _ = self.stdin.flush();
        let mut resp = self.read_line();
        // skip stray "success"-like lines
        while resp.is_empty() {
            resp = self.read_line();
        }
        self.stats.queries += 1;
        let ans = if resp == "sat" {
            self.stats.sat += 1;
            Answer::Sat
        } else if resp == "unsat" {
            self.stats.unsat += 1;
            Answer::Unsat
        } else {
            self.stats.unknown += 1;
            let r = resp.clone();
            if r.starts_with("(error") {
                // solver state is suspect (or the watchdog fired): respawn the process
                self.broken = true;
                self.hard_reset();
            }
            Answer::Unknown(r)
        };
        let mut model = model;
        if self.kind == Kind::Portfolio {
            if let Answer::Unknown(_) = ans {
                self.stats.unknown -= 1;
                self.stats.queries -= 1;
                let mut a2 = self.check_oneshot(lits, model.as_deref_mut(), &[]);
                if let Answer::Unknown(_) = a2 {
                    a2 = self.check_oneshot(lits, model.as_deref_mut(), &["--solve-bv-as-int=sum"]);
                }
                self.stats.seconds += t0.elapsed().as_secs_f64();
                return a2;
            }
        }
        if ans == Answer::Sat {
            if let Some(m) = model {
                self.read_model(m);
            }
        }
        self.stats.seconds += t0.elapsed().as_secs_f64();
        ans
    }

    fn model_names(&self) -> Vec<String> {
        let mut names: Vec<String> = Vec::new();
        for k in &self.declared_inputs {
            names.push(format!("in{}", k));
        }
        for (id, w) in &self.declared_vars {
            names.push(format!("v{}_{}", id, w));
        }
        for k in &self.declared_frees {
            names.push(format!("f{}", k));
        }
        names
    }

    fn check_oneshot(&mut self, lits: &[Lit], mut model: Option<&mut Witness>, extra: &[&str]) -> Answer {
        let t0 = Instant::now();
        let mut text = self.script.clone();
        for l in lits {
            text.push_str(&format!("(assert {})\n", Self::lit_str(*l)));
        }
        text.push_str("(check-sat)\n");
        let names = self.model_names();
        if model.is_some() && !names.is_empty() {
            text.push_str(&format!("(get-value ({}))\n", names.join(" ")));
        }
        if let Ok(p) = std::env::var("SYMX_ONESHOT_DUMP") {
            let _ = std::fs::write(p, &text);
        }
        let child = Command::new("cvc5")
            .args(["--lang", "smt2", "--produce-models", &format!("--tlimit={}", self.timeout_ms)])
            .args(extra)
            .stdin(Stdio::piped())
            .stdout(Stdio::piped())
            .stderr(Stdio::null())
            .spawn();
        let mut child = match child {
            Ok(c) => c,
            Err(e) => return Answer::Unknown(format!("cannot start cvc5: {}", e)),
        };
        {
            let mut si = child.stdin.take().unwrap();
            let _ = si.write_all(text.as_bytes());
        }
        let outp = child.wait_with_output();
        self.stats.queries += 1;
        self.stats.seconds += t0.elapsed().as_secs_f64();
        let out = match outp {
            Ok(o) => String::from_utf8_lossy(&o.stdout).to_string(),
            Err(e) => return Answer::Unknown(format!("cvc5 failed: {}", e)),
        };
        let first = out.lines().next().unwrap_or("").trim().to_string();
        if first == "unsat" {
            self.stats.unsat += 1;
            Answer::Unsat
        } else if first == "sat" {
            self.stats.sat += 1;
            if let Some(m) = model.as_mut() {
                let rest: String = out.lines().skip(1).collect::<Vec<_>>().join(" ");
                m.inputs.clear();
                m.vars.clear();
                m.frees.clear();
                parse_model(&rest, m);
            }
            Answer::Sat
        } else {
            self.stats.unknown += 1;
            Answer::Unknown(if first.is_empty() { "no answer (timeout)".into() } else { first })
        }
    }

    fn read_model(&mut self, m: &mut Witness) {
        let mut names: Vec<String> = Vec::new();
        for k in &self.declared_inputs {
            names.push(format!("in{}", k));
        }
        for (id, w) in &self.declared_vars {
            names.push(format!("v{}_{}", id, w));
        }
        for k in &self.declared_frees {
            names.push(format!("f{}", k));
        }
        m.inputs.clear();
        m.vars.clear();
        m.frees.clear();
        if names.is_empty() {
            return;
        }
        let q = format!("(get-value ({}))\n", names.join(" "));
        self.send(&q);
        let _ = self.stdin.flush();
        let resp = self.read_sexpr();
        parse_model(&resp, m);
    }
}

fn parse_model(resp: &str, m: &mut Witness) {
    {
        // tokens: ( ( name value ) ( name value ) ... )
        let toks = tokenize(resp);
        let mut i = 0;
        while i < toks.len() {
            if toks[i] == "(" && i + 2 < toks.len() && toks[i + 1] != "(" {
                let name = &toks[i + 1];
                // value may be "#x..", "#b..", "true", "false", or "(_ bvN w)"
                let (val, used) = parse_value(&toks[i + 2..]);
                if let Some(rest) = name.strip_prefix("in") {
                    if let Ok(k) = rest.parse::<usize>() {
                        if m.inputs.len() <= k {
                            m.inputs.resize(k + 1, 0);
                        }
                        m.inputs[k] = val as u8;
                    }
                } else if let Some(rest) = name.strip_prefix('v') {
                    if let Some((id, _w)) = rest.split_once('_') {
                        if let Ok(id) = id.parse::<u32>() {
                            m.vars.insert(id, val);
                        }
                    }
                } else if let Some(rest) = name.strip_prefix('f') {
                    if let Ok(k) = rest.parse::<u32>() {
                        m.frees.insert(k, val != 0);
                    }
                }
                i += 2 + used;
            } else {
                i += 1;
            }
        }
    }
}

impl Drop for Solver {
    fn drop(&mut self) {
        let _ = self.child.kill();
        let _ = self.child.wait();
    }
}

fn tokenize(s: &str) -> Vec<String> {
    let mut out = Vec::new();
    let mut cur = String::new();
    for ch in s.chars() {
        match ch {
            '(' | ')' => {
                if !cur.is_empty() {
                    out.push(std::mem::take(&mut cur));
                }
                out.push(ch.to_string());
            }
            c if c.is_whitespace() => {
                if !cur.is_empty() {
                    out.push(std::mem::take(&mut cur));
                }
            }
            c => cur.push(c),
        }
    }
    if !cur.is_empty() {
        out.push(cur);
    }
    out
}

fn parse_value(toks: &[String]) -> (u64, usize) {
    if toks.is_empty() {
        return (0, 0);
    }
    let t = &toks[0];
    if let Some(h) = t.strip_prefix("#x") {
        return (u64::from_str_radix(h, 16).unwrap_or(0), 1);
    }
    if let Some(b) = t.strip_prefix("#b") {
        return (u64::from_str_radix(b, 2).unwrap_or(0), 1);
    }
    if t == "true" {
        return (1, 1);
    }
    if t == "false" {
        return (0, 1);
    }
    if t == "(" && toks.len() >= 4 && toks[1] == "_" {
        if let Some(n) = toks[2].strip_prefix("bv") {
            return (n.parse::<u64>().unwrap_or(0), 5);
        }
    }
    (0, 1)
}
