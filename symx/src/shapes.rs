//! SHAPES: the *constants* of a program as a solver dimension (C01).
//!
//! A concrete program is parsed by the real parser into IR; some of its `+`/`-` run lengths
//! and load constants are then replaced by unconstrained solver variables (through the public
//! constructors `Instr::add` / `Instr::load`).  The real `Program::optimize(level)` runs on
//! that IR *inside* the exploration, so every case split of the optimiser on a constant
//! (trip counts through `wrapping_div`, `is_odd`, `== 0`, ...) forks on the solver.  The
//! unoptimised and the optimised IR are executed by a small IR interpreter over terms and
//! their event logs are compared by the solver.  A counterexample assigns the constants and
//! the inputs; it is turned back into Brainfuck text and replayed natively through the
//! ordinary C01 route (real irint vs. the reference interpreter).

use crate::engine::{self, decide, decide_free, explore, with, Abort, Event, HashMode, IoCfg, Limits, PathEnd};
use crate::io::FREE_EOF_BASE;
use crate::native::Case;
use crate::product::{compare, concretise, Cmp};
use crate::solver::{Kind, Stats};
use crate::subject::{Backend, Mode};
use crate::symcell::SymCell;
use hpbf::ir::{Block, Instr, Program};
use hpbf::CellType;
use std::collections::HashMap;

const SYM_BASE: u32 = 900;

struct Mini<const B: u32> {
    tape: HashMap<i64, SymCell<B>>,
    ptr: i64,
    events: Vec<Event>,
    reads: u32,
    eof_hit: bool,
    iterations: u64,
    max_iterations: u64,
    honour_once: bool,
}

enum Stop {
    IterationCap,
}

impl<const B: u32> Mini<B> {
    fn new(max_iterations: u64, honour_once: bool) -> Self {
        Mini { tape: HashMap::new(), ptr: 0, events: vec![], reads: 0, eof_hit: false, iterations: 0, max_iterations, honour_once }
    }
    fn read(&self, off: isize) -> SymCell<B> {
        *self.tape.get(&(self.ptr + off as i64)).unwrap_or(&SymCell(0))
    }
    fn write(&mut self, off: isize, v: SymCell<B>) {
        self.tape.insert(self.ptr + off as i64, v);
    }
    fn is_zero(&self, off: isize) -> bool {
        let v = self.read(off);
        let l = with(|c| c.ar.eq_lit(B as u8, v.0, 0));
        decide(l)
    }
    fn exec(&mut self, block: &Block<SymCell<B>>) -> Result<(), Stop> {
        for ins in &block.insts {
            match ins {
                Instr::Output { src } => {
                    let v = self.read(*src);
                    let t = with(|c| c.ar.trunc(8, v.0, B as u8));
                    self.events.push(Event::Out(t));
                }
                Instr::Input { dst } => {
                    let k = self.reads;
                    self.reads += 1;
                    self.events.push(Event::In);
                    let eof_forks = with(|c| c.io.eof_forks);
                    let eof = if self.eof_hit {
                        true
                    } else if k < eof_forks {
                        decide_free(FREE_EOF_BASE + k)
                    } else {
                        false
                    };
                    let v = if eof {
                        self.eof_hit = true;
                        SymCell(0)
                    } else {
                        SymCell(with(|c| c.ar.input(B as u8, k)))
                    };
                    self.write(*dst, v);
                }
                Instr::Calc { calcs } => {
                    let vals: Vec<(isize, SymCell<B>)> = calcs.iter().map(|(var, e)| (*var, e.evaluate(|o| self.read(o)))).collect();
                    for (var, v) in vals {
                        self.write(var, v);
                    }
                }
                Instr::Loop { cond, block, once } => {
                    let mut first = true;
                    loop {
                        let skip_test = first && *once && self.honour_once;
                        first = false;
                        if !skip_test && self.is_zero(*cond) {
                            break;
                        }
                        self.iterations += 1;
                        if self.iterations > self.max_iterations {
                            return Err(Stop::IterationCap);
                        }
                        self.exec(block)?;
                        self.ptr += block.shift as i64;
                    }
                }
                Instr::If { cond, block } => {
                    if !self.is_zero(*cond) {
                        self.exec(block)?;
                        self.ptr += block.shift as i64;
                    }
                }
            }
        }
        Ok(())
    }
}

/// Replace up to `budget` constants of the parsed IR by solver variables.
fn abstract_block<const B: u32>(b: &Block<SymCell<B>>, pick: &mut dyn FnMut() -> bool, next: &mut u32, budget: &mut u32) -> Block<SymCell<B>> {
    let mut insts = Vec::with_capacity(b.insts.len());
    for ins in &b.insts {
        match ins {
            Instr::Calc { calcs } if calcs.len() == 1 => {
                let (var, e) = (&calcs[0].0, &calcs[0].1);
                let k = e.const_inc_of(*var);
                let c = e.constant();
                if *budget > 0 && pick() && (k.is_some() || c.is_some()) {
                    let s = SymCell::<B>(with(|cx| cx.ar.var(B as u8, SYM_BASE + *next)));
                    *next += 1;
                    *budget -= 1;
                    if k.is_some() {
                        insts.push(Instr::add(*var, s));
                    } else {
                        insts.push(Instr::load(*var, s));
                    }
                } else {
                    insts.push(ins.clone());
                }
            }
            Instr::Loop { cond, block, once } => insts.push(Instr::Loop { cond: *cond, block: abstract_block(block, pick, next, budget), once: *once }),
            Instr::If { cond, block } => insts.push(Instr::If { cond: *cond, block: abstract_block(block, pick, next, budget) }),
            other => insts.push(other.clone()),
        }
    }
    Block { shift: b.shift, insts }
}

/// Brainfuck text of a parse-level IR program (adds, loads, loops, I/O) with concrete constants.
fn to_bf<const B: u32>(b: &Block<SymCell<B>>, consts: &dyn Fn(SymCell<B>) -> u64, cur: &mut isize, out: &mut String) -> bool {
    let goto = |cur: &mut isize, to: isize, out: &mut String| {
        while *cur < to {
            out.push('>');
            *cur += 1;
        }
        while *cur > to {
            out.push('<');
            *cur -= 1;
        }
    };
    let emit_const = |v: u64, out: &mut String| {
        let m = crate::term::mask(B as u8);
        let v = v & m;
        let neg = (m - v).wrapping_add(1) & m;
        if v <= neg || neg > 4096 {
            for _ in 0..v.min(4096) {
                out.push('+');
            }
            v <= 4096
        } else {
            for _ in 0..neg {
                out.push('-');
            }
            true
        }
    };
    for ins in &b.insts {
        match ins {
            Instr::Output { src } => {
                goto(cur, *src, out);
                out.push('.');
            }
            Instr::Input { dst } => {
                goto(cur, *dst, out);
                out.push(',');
            }
            Instr::Calc { calcs } => {
                if calcs.len() != 1 {
                    return false;
                }
                let (var, e) = (&calcs[0].0, &calcs[0].1);
                goto(cur, *var, out);
                if let Some(k) = e.const_inc_of(*var) {
                    if !emit_const(consts(k), out) {
                        return false;
                    }
                } else if let Some(c) = e.constant() {
                    out.push_str("[-]");
                    if !emit_const(consts(c), out) {
                        return false;
                    }
                } else {
                    return false;
                }
            }
            Instr::Loop { cond, block, .. } => {
                goto(cur, *cond, out);
                out.push('[');
                let mut inner = *cond;
                if !to_bf(block, consts, &mut inner, out) {
                    return false;
                }
                goto(&mut inner, *cond + block.shift, out);
                out.push(']');
                *cur = *cond;
            }
            Instr::If { .. } => return false,
        }
    }
    true
}

#[derive(Default)]
pub struct Out {
    pub shapes: u64,
    pub paths: u64,
    pub optimiser_runs: u64,
    pub comparisons: u64,
    pub truncated: u64,
    pub inconclusive: Vec<String>,
    pub candidates: Vec<Case>,
    pub stats: Stats,
    pub samples: Vec<String>,
    pub symbolic_constants: u64,
}

struct PathOut {
    runs: u64,
    cmps: u64,
    cands: Vec<(u32, crate::term::Witness, String)>,
    inc: Vec<String>,
}

fn run_shape<const B: u32>(code: &str, variant: u64, levels: &[u32], cfg_ops: u64, honour_once: bool, out: &mut Out) {
    engine::init(Kind::Z3, 4_000, Limits { max_decisions: 40, max_paths: 160, max_ops: cfg_ops }, HashMode::Uniform, IoCfg { eof_forks: 2, ..Default::default() });
    with(|c| {
        c.width = B as u8;
        c.job_deadline = Some(std::time::Instant::now() + std::time::Duration::from_secs(6));
    });
    let parsed = match Program::<SymCell<B>>::parse(code) {
        Ok(p) => p,
        Err(_) => return,
    };
    // which constants become symbolic: a deterministic choice per variant.  The abstraction
    // itself goes through the real constructors (which compare the constant with zero), so it
    // runs inside the exploration; a dry run with concrete placeholders counts the constants.
    let count_consts = {
        let mut r = crate::corpus::Rng::new(variant.wrapping_mul(7919) ^ 0x5AFE);
        let mut n = 0u32;
        let mut budget = 2 + (variant % 2) as u32;
        fn count<const B: u32>(b: &Block<SymCell<B>>, pick: &mut dyn FnMut() -> bool, n: &mut u32, budget: &mut u32) {
            for ins in &b.insts {
                match ins {
                    Instr::Calc { calcs } if calcs.len() == 1 => {
                        let (var, e) = (&calcs[0].0, &calcs[0].1);
                        if *budget > 0 && pick() && (e.const_inc_of(*var).is_some() || e.constant().is_some()) {
                            *n += 1;
                            *budget -= 1;
                        }
                    }
                    Instr::Loop { block, .. } | Instr::If { block, .. } => count(block, pick, n, budget),
                    _ => {}
                }
            }
        }
        count::<B>(&parsed, &mut || r.below(2) == 0, &mut n, &mut budget);
        n
    };
    if count_consts == 0 {
        return;
    }
    let next = count_consts;
    out.shapes += 1;
    out.symbolic_constants += next as u64;
    if out.samples.len() < 4 {
        out.samples.push(format!("{} at {} bits with {} of its constants replaced by solver variables", crate::report::short(code), B, next));
    }
    let abs_cell: std::cell::RefCell<Option<Block<SymCell<B>>>> = std::cell::RefCell::new(None);
    let t_shape = std::time::Instant::now();
    let ex = explore(|| {
        let mut po = PathOut { runs: 0, cmps: 0, cands: vec![], inc: vec![] };
        let abs = {
            let mut r = crate::corpus::Rng::new(variant.wrapping_mul(7919) ^ 0x5AFE);
            let mut nx = 0u32;
            let mut budget = 2 + (variant % 2) as u32;
            abstract_block::<B>(&parsed, &mut || r.below(2) == 0, &mut nx, &mut budget)
        };
        *abs_cell.borrow_mut() = Some(abs.clone());
        let mut reference = Mini::<B>::new(400, false);
        if reference.exec(&abs).is_err() {
            return po; // canonical run too long on this path: outside the bound
        }
        for &l in levels {
            engine::LAST_PANIC.with(|p| *p.borrow_mut() = None);
            let opt = std::panic::catch_unwind(std::panic::AssertUnwindSafe(|| abs.optimize(l)));
            let opt = match opt {
                Ok(o) => o,
                Err(payload) => {
                    match payload.downcast::<Abort>() {
                        Ok(a) => match *a {
                            Abort::Inconclusive(s) => po.inc.push(format!("L{}: {}", l, s)),
                            Abort::Truncated(_) => {}
                        },
                        Err(_) => {
                            let msg = engine::LAST_PANIC.with(|p| p.borrow_mut().take()).unwrap_or_default();
                            let w = with(|c| c.wit.clone());
                            po.cands.push((l, w, format!("panic in optimize: {}", msg)));
                        }
                    }
                    continue;
                }
            };
            po.runs += 1;
            for honour in [honour_once] {
                let mut m = Mini::<B>::new(2_000, honour);
                let r = m.exec(&opt);
                po.cmps += 1;
                let wit = with(|c| c.wit.clone());
                match r {
                    Err(Stop::IterationCap) => {
                        po.cands.push((l, wit, format!("optimised IR ({}) exceeds 2000 loop iterations where the unoptimised IR needs at most 400 (candidate: finite loop made infinite)", if honour { "honouring the at-least-once flag" } else { "plain" })));
                    }
                    Ok(()) => match compare(&reference.events, &m.events) {
                        Cmp::Equal => {}
                        Cmp::Unknown(s) => po.inc.push(format!("L{}: solver: {}", l, s)),
                        Cmp::Differ(w, d) => po.cands.push((l, w, format!("optimised IR ({}) differs: {}", if honour { "honouring the at-least-once flag" } else { "plain" }, d))),
                        other => po.cands.push((l, wit, format!("optimised IR ({}) event log length differs: {:?}", if honour { "honouring the at-least-once flag" } else { "plain" }, other))),
                    },
                }
            }
        }
        po
    });
    if std::env::var("SYMX_TRACE_SHAPES").is_ok() {
        eprintln!("shape w{} {:?}: {} paths, {} dropped, {:.1}s", B, crate::report::short(code), ex.paths.len(), ex.dropped_items, t_shape.elapsed().as_secs_f64());
    }
    for p in ex.paths {
        out.paths += 1;
        match p.end {
            PathEnd::Done(po) => {
                out.optimiser_runs += po.runs;
                out.comparisons += po.cmps;
                out.inconclusive.extend(po.inc.into_iter().map(|s| format!("{}: {}", crate::report::short(code), s)));
                for (l, w, note) in po.cands {
                    // concretise the constants and turn the shape back into Brainfuck text
                    let consts = |c: SymCell<B>| -> u64 {
                        with(|cx| {
                            cx.ar.new_eval_epoch();
                            cx.ar.eval(c.0, &w)
                        })
                    };
                    let mut text = String::new();
                    let mut cur = 0isize;
                    let abs_ref = abs_cell.borrow();
                    let abs = match abs_ref.as_ref() {
                        Some(a) => a,
                        None => continue,
                    };
                    if !to_bf::<B>(abs, &consts, &mut cur, &mut text) {
                        out.inconclusive.push(format!("{}: counterexample constants too large to print as Brainfuck text ({})", crate::report::short(code), note));
                        continue;
                    }
                    let env = concretise(&w, 8);
                    // the at-least-once flag only matters to back ends that honour it: replay on both
                    for backend in [if honour_once { Backend::Bc } else { Backend::Ir }] {
                        out.candidates.push(Case {
                            property: if honour_once { "C02".into() } else { "C01".into() },
                            backend,
                            width: B,
                            level: l,
                            mode: Mode::Full,
                            program: text.clone(),
                            input: env.input.clone(),
                            fail_read_at: None,
                            fail_write_at: None,
                            out_ok0: false,
                            no_input: false,
                            no_output: false,
                            note: format!("SHAPES (from {}): {}", crate::report::short(code), note),
                            profile: String::new(),
                            guard: 0,
                        });
                    }
                }
            }
            PathEnd::Abort(Abort::Truncated(_)) => out.truncated += 1,
            PathEnd::Abort(Abort::Inconclusive(s)) => out.inconclusive.push(format!("{}: {}", crate::report::short(code), s)),
            PathEnd::Panic(s) => out.inconclusive.push(format!("{}: engine panic: {}", crate::report::short(code), s)),
        }
    }
    out.stats.add(&engine::take_stats());
}

pub fn run(programs: &[String], seed: u64, secs: u64, threads: usize, honour_once: bool) -> Out {
    use std::sync::atomic::{AtomicUsize, Ordering};
    use std::sync::Mutex;
    let deadline = std::time::Instant::now() + std::time::Duration::from_secs(secs);
    let next = AtomicUsize::new(0);
    let total = Mutex::new(Out::default());
    std::thread::scope(|s| {
        for _ in 0..threads {
            std::thread::Builder::new()
                .stack_size(1 << 28)
                .spawn_scoped(s, || loop {
                    let i = next.fetch_add(1, Ordering::SeqCst);
                    if i >= programs.len() * 2 || std::time::Instant::now() > deadline {
                        break;
                    }
                    let code = &programs[i / 2];
                    let mut o = Out::default();
                    if i % 2 == 0 {
                        run_shape::<8>(code, seed.wrapping_add(i as u64), &[1, 2, 3], 400_000, honour_once, &mut o);
                    } else {
                        run_shape::<64>(code, seed.wrapping_add(i as u64), &[1, 3], 400_000, honour_once, &mut o);
                    }
                    let mut t = total.lock().unwrap();
                    t.shapes += o.shapes;
                    t.paths += o.paths;
                    t.optimiser_runs += o.optimiser_runs;
                    t.comparisons += o.comparisons;
                    t.truncated += o.truncated;
                    t.symbolic_constants += o.symbolic_constants;
                    t.inconclusive.extend(o.inconclusive);
                    t.candidates.extend(o.candidates);
                    t.stats.add(&o.stats);
                    if t.samples.len() < 4 {
                        t.samples.extend(o.samples);
                    }
                })
                .unwrap();
        }
    });
    total.into_inner().unwrap()
}
