//! Independent reference interpreter of canonical Brainfuck, written against the
//! property text: cells wrap modulo 2^BITS, the tape is unbounded in both
//! directions and starts all-zero, ',' stores the next input byte or 0 at end of
//! input, '.' emits the low 8 bits, every other character is a comment.
//! It shares no code with hpbf.  Generic over the value domain so that the very same
//! interpreter is used symbolically and in native replay.

use std::collections::HashMap;

/// Value domain of the reference interpreter.
pub trait RefDom {
    type V: Copy;
    fn zero(&mut self) -> Self::V;
    fn inc(&mut self, v: Self::V) -> Self::V;
    fn dec(&mut self, v: Self::V) -> Self::V;
    fn is_zero(&mut self, v: Self::V) -> bool;
    /// Request one input byte: logs the request; returns the stored value (0 at EOF),
    /// or None if the environment fails the request.
    fn input(&mut self) -> Option<Self::V>;
    /// Emit the low 8 bits; returns false if the environment refuses the byte.
    fn output(&mut self, v: Self::V) -> bool;
    /// State fingerprint support for divergence detection: are the two values
    /// provably equal (on the current path)?
    fn same(&mut self, a: Self::V, b: Self::V) -> bool;
    /// Number of input requests made so far.
    fn reads(&self) -> u32;
    /// Number of output attempts made so far.
    fn writes(&self) -> u32;
}

#[derive(Clone, Debug, PartialEq)]
pub enum RefStatus {
    Halted,
    /// stopped by an environment fault (C08)
    Faulted,
    /// a machine state repeated at a loop back-edge with no input consumed in between:
    /// the run diverges for every input on this path; `period_writes` outputs per period
    Divergent { first_writes: u32, period_writes: u32 },
    /// step cap reached
    Truncated,
}

pub struct RefRun {
    pub status: RefStatus,
    pub steps: u64,
    pub min_ptr: i64,
    pub max_ptr: i64,
    pub back_edges: u64,
}

pub fn balanced(code: &str) -> bool {
    let mut d = 0i64;
    for b in code.bytes() {
        if b == b'[' {
            d += 1
        } else if b == b']' {
            d -= 1;
            if d < 0 {
                return false;
            }
        }
    }
    d == 0
}

struct Snapshot<V> {
    ptr: i64,
    reads: u32,
    writes: u32,
    cells: Vec<(i64, V)>,
}

pub fn run<D: RefDom>(dom: &mut D, code: &str, max_steps: u64, detect_divergence: bool) -> RefRun {
    let prog: Vec<u8> = code.bytes().collect();
    // bracket table
    let mut jump = vec![0usize; prog.len()];
    let mut st = Vec::new();
    for (i, &b) in prog.iter().enumerate() {
        if b == b'[' {
            st.push(i);
        } else if b == b']' {
            let j = st.pop().expect("unbalanced program given to refbf");
            jump[i] = j;
            jump[j] = i;
        }
    }
    assert!(st.is_empty(), "unbalanced program given to refbf");
    let mut tape: HashMap<i64, D::V> = HashMap::new();
    let mut ptr: i64 = 0;
    let mut pc = 0usize;
    let mut steps = 0u64;
    let (mut minp, mut maxp) = (0i64, 0i64);
    let mut back_edges = 0u64;
    // snapshots per back-edge pc (bounded)
    let mut snaps: HashMap<usize, Vec<Snapshot<D::V>>> = HashMap::new();
    let zero = dom.zero();
    let mut status = RefStatus::Halted;
    while pc < prog.len() {
        steps += 1;
        if steps > max_steps {
            status = RefStatus::Truncated;
            break;
        }
        match prog[pc] {
            b'>' => {
                ptr += 1;
                maxp = maxp.max(ptr);
            }
            b'<' => {
                ptr -= 1;
                minp = minp.min(ptr);
            }
            b'+' => {
                let v = *tape.get(&ptr).unwrap_or(&zero);
                let n = dom.inc(v);
                tape.insert(ptr, n);
            }
            b'-' => {
                let v = *tape.get(&ptr).unwrap_or(&zero);
                let n = dom.dec(v);
                tape.insert(ptr, n);
            }
            b'.' => {
                let v = *tape.get(&ptr).unwrap_or(&zero);
                if !dom.output(v) {
                    status = RefStatus::Faulted;
                    break;
                }
            }
            b',' => match dom.input() {
                Some(v) => {
                    tape.insert(ptr, v);
                }
                None => {
                    status = RefStatus::Faulted;
                    break;
                }
            },
            b'[' => {
                let v = *tape.get(&ptr).unwrap_or(&zero);
                if dom.is_zero(v) {
                    pc = jump[pc];
                }
            }
            b']' => {
                let v = *tape.get(&ptr).unwrap_or(&zero);
                if !dom.is_zero(v) {
                    back_edges += 1;
                    if detect_divergence {
                        let list = snaps.entry(pc).or_default();
                        // compare with earlier visits of this back-edge
                        let mut found = None;
                        for s in list.iter().rev().take(4) {
                            if s.ptr == ptr && s.reads == dom.reads() {
                                // all cells touched in either state must agree
                                let mut same = true;
                                let old: HashMap<i64, D::V> = s.cells.iter().cloned().collect();
                                for (k, v) in tape.iter() {
                                    let o = *old.get(k).unwrap_or(&zero);
                                    if !dom.same(*v, o) {
                                        same = false;
                                        break;
                                    }
                                }
                                if same {
                                    for (k, o) in old.iter() {
                                        if !tape.contains_key(k) && !dom.same(*o, zero) {
                                            same = false;
                                            break;
                                        }
                                    }
                                }
                                if same {
                                    found = Some((s.writes, dom.writes() - s.writes));
                                    break;
                                }
                            }
                        }
                        if let Some((fw, pw)) = found {
                            status = RefStatus::Divergent { first_writes: fw, period_writes: pw };
                            break;
                        }
                        if list.len() < 64 && tape.len() <= 512 {
                            list.push(Snapshot { ptr, reads: dom.reads(), writes: dom.writes(), cells: tape.iter().map(|(k, v)| (*k, *v)).collect() });
                        }
                    }
                    pc = jump[pc];
                }
            }
            _ => {}
        }
        pc += 1;
    }
    RefRun { status, steps, min_ptr: minp, max_ptr: maxp, back_edges }
}

/// Native value domain used for replay and for validating refbf against the
/// repository's own expected outputs.
pub struct NativeDom<'a> {
    pub bits: u32,
    pub input: &'a [u8],
    /// reads at index >= eof_at return 0 (end of input); None = input.len()
    pub pos: usize,
    pub events: Vec<NEvent>,
    pub fail_read_at: Option<u32>,
    pub fail_write_at: Option<u32>,
    pub no_input: bool,
    nreads: u32,
    nwrites: u32,
}

#[derive(Clone, Debug, PartialEq, Eq)]
pub enum NEvent {
    In,
    Out(u8),
    InFail,
    OutFail(u8),
}

impl<'a> NativeDom<'a> {
    pub fn new(bits: u32, input: &'a [u8]) -> Self {
        NativeDom { bits, input, pos: 0, events: vec![], fail_read_at: None, fail_write_at: None, no_input: false, nreads: 0, nwrites: 0 }
    }
    fn m(&self) -> u64 {
        if self.bits >= 64 {
            u64::MAX
        } else {
            (1u64 << self.bits) - 1
        }
    }
}

impl<'a> RefDom for NativeDom<'a> {
    type V = u64;
    fn zero(&mut self) -> u64 {
        0
    }
    fn inc(&mut self, v: u64) -> u64 {
        v.wrapping_add(1) & self.m()
    }
    fn dec(&mut self, v: u64) -> u64 {
        v.wrapping_sub(1) & self.m()
    }
    fn is_zero(&mut self, v: u64) -> bool {
        v == 0
    }
    fn input(&mut self) -> Option<u64> {
        let k = self.nreads;
        self.nreads += 1;
        if self.no_input {
            // absent input source: the request cannot even be made
            self.events.push(NEvent::InFail);
            return None;
        }
        if self.fail_read_at == Some(k) {
            self.events.push(NEvent::InFail);
            return None;
        }
        self.events.push(NEvent::In);
        if self.pos < self.input.len() {
            let b = self.input[self.pos];
            self.pos += 1;
            Some(b as u64)
        } else {
            Some(0)
        }
    }
    fn output(&mut self, v: u64) -> bool {
        let k = self.nwrites;
        self.nwrites += 1;
        if self.fail_write_at == Some(k) {
            self.events.push(NEvent::OutFail(v as u8));
            return false;
        }
        self.events.push(NEvent::Out(v as u8));
        true
    }
    fn same(&mut self, a: u64, b: u64) -> bool {
        a == b
    }
    fn reads(&self) -> u32 {
        self.nreads
    }
    fn writes(&self) -> u32 {
        self.nwrites
    }
}
