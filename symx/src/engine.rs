//! Path exploration: concolic execution of a native closure whose data-dependent
//! decisions consult the solver.  A work item is a set of assumed literals plus a
//! witness (a model of those literals).  At each open decision the witness picks a
//! side; the other side is asked of the solver and, if feasible, enqueued with its
//! own model.  Sibling items partition the input space by construction.

use crate::solver::{Answer, Kind, Solver, Stats};
use crate::term::{Arena, AtomId, Lit, Witness, T};
use std::cell::RefCell;
use std::collections::{HashMap, VecDeque};
use std::panic::{catch_unwind, AssertUnwindSafe};

#[derive(Debug, Clone)]
pub enum Abort {
    /// Exploration bound reached on this path (never counted as a pass).
    Truncated(String),
    /// Engine limitation / solver gave no answer.
    Inconclusive(String),
}

#[derive(Clone, Debug)]
pub struct Limits {
    pub max_decisions: u32,
    pub max_paths: u32,
    pub max_ops: u64,
}

impl Limits {
    pub fn quick() -> Limits {
        Limits { max_decisions: 48, max_paths: 96, max_ops: 200_000 }
    }
    pub fn thorough() -> Limits {
        Limits { max_decisions: 256, max_paths: 1024, max_ops: 2_000_000 }
    }
}

#[derive(Clone, Copy, PartialEq, Eq, Debug)]
pub enum HashMode {
    /// Program constants are concrete: hash the constant; hashing a symbolic cell is an engine abort.
    Concrete,
    /// Everything hashes alike (Eq-consistent under any path condition).
    Uniform,
}

#[derive(Clone, Debug, PartialEq)]
pub enum Event {
    In,
    Out(T),
    /// environment refused the output (value attempted)
    OutFail(T),
    /// environment failed the input request
    InFail,
}

pub struct Item {
    pub lits: Vec<Lit>,
    pub wit: Witness,
}

/// Environment configuration for the I/O seam (concrete per exploration).
#[derive(Clone, Debug, Default)]
pub struct IoCfg {
    /// EOF position is explored as a free decision for the first `eof_forks` reads.
    pub eof_forks: u32,
    /// Output failure explored as a free decision for the first `out_fault_forks` writes.
    pub out_fault_forks: u32,
    /// Input failure explored as a free decision for the first `in_fault_forks` reads.
    pub in_fault_forks: u32,
    /// Use Ok(0) instead of Err for refused output.
    pub out_fault_ok0: bool,
}

pub struct Ctx {
    pub ar: Arena,
    pub solver: Solver,
    pub path: Vec<Lit>,
    pub known: HashMap<AtomId, bool>,
    pub wit: Witness,
    pub decisions: u32,
    pub ops: u64,
    pub limits: Limits,
    pub queue: VecDeque<Item>,
    pub hash_mode: HashMode,
    // I/O seam
    pub io: IoCfg,
    pub armed_input: Option<u32>,
    pub parked_out: Option<T>,
    pub events: Vec<Event>,
    pub reads: u32,
    pub writes: u32,
    pub eof_hit: bool,
    pub faulted: bool,
    pub seam_errors: Vec<String>,
    pub active: bool,
    pub width: u8,
    pub job_deadline: Option<std::time::Instant>,
    /// set while an executor is being built from SymCell constants: compilation that runs past it is aborted
    pub compile_deadline: Option<std::time::Instant>,
    /// the context under test has no output sink: `into_u8` values are not parked
    pub no_output: bool,
    /// set while native code that must not be unwound through (extern "sysv64" shims) is on the stack:
    /// an engine abort is then deferred and raised by the caller after the native call returns
    pub no_unwind: bool,
    pub pending_abort: Option<Abort>,
}

thread_local! {
    pub static CTX: RefCell<Option<Ctx>> = RefCell::new(None);
    pub static LAST_PANIC: RefCell<Option<String>> = RefCell::new(None);
}

pub fn install_panic_hook() {
    std::panic::set_hook(Box::new(|info| {
        if info.payload().downcast_ref::<Abort>().is_some() {
            return;
        }
        let msg = if let Some(s) = info.payload().downcast_ref::<&str>() {
            s.to_string()
        } else if let Some(s) = info.payload().downcast_ref::<String>() {
            s.clone()
        } else {
            "non-string panic".to_string()
        };
        let loc = info.location().map(|l| format!("{}:{}", l.file(), l.line())).unwrap_or_default();
        LAST_PANIC.with(|p| *p.borrow_mut() = Some(format!("{} at {}", msg, loc)));
    }));
}

pub fn with<R>(f: impl FnOnce(&mut Ctx) -> R) -> R {
    CTX.with(|c| {
        let mut b = c.borrow_mut();
        let ctx = b.as_mut().expect("symx engine not initialised on this thread");
        f(ctx)
    })
}

pub fn abort(a: Abort) -> ! {
    std::panic::panic_any(a)
}

/// (Re-)initialise the engine of this thread for a new program.
pub fn init(kind: Kind, timeout_ms: u64, limits: Limits, hash_mode: HashMode, io: IoCfg) {
    CTX.with(|c| {
        let mut b = c.borrow_mut();
        match b.as_mut() {
            Some(ctx) if ctx.solver.kind == kind && ctx.solver.timeout_ms == timeout_ms => {
                ctx.ar = Arena::new_with_reserved();
                ctx.solver.reset();
                ctx.limits = limits;
                ctx.hash_mode = hash_mode;
                ctx.io = io;
                ctx.queue.clear();
            }
            _ => {
                *b = Some(Ctx {
                    ar: Arena::new_with_reserved(),
                    solver: Solver::new(kind, timeout_ms),
                    path: vec![],
                    known: HashMap::new(),
                    wit: Witness::default(),
                    decisions: 0,
                    ops: 0,
                    limits,
                    queue: VecDeque::new(),
                    hash_mode,
                    io,
                    armed_input: None,
                    parked_out: None,
                    events: vec![],
                    reads: 0,
                    writes: 0,
                    eof_hit: false,
                    faulted: false,
                    seam_errors: vec![],
                    active: false,
                    width: 8,
                    job_deadline: None,
                    compile_deadline: None,
                    no_output: false,
                    no_unwind: false,
                    pending_abort: None,
                });
            }
        }
    });
}

pub fn take_stats() -> Stats {
    with(|c| std::mem::take(&mut c.solver.stats))
}

impl Ctx {
    fn start_item(&mut self, item: Item) {
        self.path = item.lits;
        self.known.clear();
        for l in &self.path {
            self.known.insert(l.atom, l.pos);
        }
        self.wit = item.wit;
        self.decisions = 0;
        self.ops = 0;
        self.ar.new_eval_epoch();
        self.reset_io();
    }

    pub fn reset_io(&mut self) {
        self.armed_input = None;
        self.parked_out = None;
        self.events.clear();
        self.reads = 0;
        self.writes = 0;
        self.eof_hit = false;
        self.faulted = false;
    }
}

/// Decide a literal (or a constant truth value) on the current path.
pub fn decide(l: Result<Lit, bool>) -> bool {
    let l = match l {
        Err(b) => return b,
        Ok(l) => l,
    };
    let r: Result<bool, Abort> = with(|c| {
        if !c.active {
            return Err(Abort::Inconclusive("a data-dependent decision was requested outside an exploration".into()));
        }
        if let Some(&v) = c.known.get(&l.atom) {
            return Ok(v == l.pos);
        }
        if let Some(d) = c.job_deadline {
            if std::time::Instant::now() > d {
                return Err(Abort::Truncated("job time cap reached".into()));
            }
        }
        let av = c.ar.eval_atom(l.atom, &c.wit);
        let taken = Lit { atom: l.atom, pos: av };
        let other = taken.not();
        let mut q = c.path.clone();
        q.push(other);
        let mut m = Witness::default();
        match c.solver.check(&c.ar, &q, Some(&mut m)) {
            Answer::Sat => {
                // keep free choices the solver did not mention
                for (k, v) in &c.wit.frees {
                    m.frees.entry(*k).or_insert(*v);
                }
                c.queue.push_back(Item { lits: q, wit: m });
                c.path.push(taken);
                c.known.insert(l.atom, av);
                c.decisions += 1;
                if c.decisions > c.limits.max_decisions {
                    return Err(Abort::Truncated(format!("more than {} open decisions on one path", c.limits.max_decisions)));
                }
            }
            Answer::Unsat => {
                c.known.insert(l.atom, av);
            }
            Answer::Unknown(s) => {
                return Err(Abort::Inconclusive(format!("solver answered '{}' on a feasibility query", s)));
            }
        }
        Ok(av == l.pos)
    });
    match r {
        Ok(b) => b,
        Err(a) => abort_or_defer(a),
    }
}

fn abort_or_defer(a: Abort) -> bool {
    let deferred = with(|c| {
        if c.no_unwind {
            if c.pending_abort.is_none() {
                c.pending_abort = Some(a.clone());
            }
            true
        } else {
            false
        }
    });
    if deferred {
        false
    } else {
        abort(a)
    }
}

/// Decide an environment choice (free boolean k): both sides are always feasible.
pub fn decide_free(k: u32) -> bool {
    let r: Result<bool, Abort> = with(|c| {
        let l = c.ar.free_lit(k);
        if let Some(&v) = c.known.get(&l.atom) {
            return Ok(v);
        }
        let v = c.wit.frees.get(&k).copied().unwrap_or(false);
        let taken = Lit { atom: l.atom, pos: v };
        let mut q = c.path.clone();
        q.push(taken.not());
        let mut m = c.wit.clone();
        m.frees.insert(k, !v);
        c.queue.push_back(Item { lits: q, wit: m });
        c.path.push(taken);
        c.known.insert(l.atom, v);
        c.wit.frees.insert(k, v);
        c.decisions += 1;
        if c.decisions > c.limits.max_decisions {
            return Err(Abort::Truncated(format!("more than {} open decisions on one path", c.limits.max_decisions)));
        }
        Ok(v)
    });
    match r {
        Ok(b) => b,
        Err(a) => abort_or_defer(a),
    }
}

/// Is `extra` satisfiable together with the current path condition?  Fills `model` on Sat.
pub fn feasible(extra: &[Lit], model: Option<&mut Witness>) -> Answer {
    with(|c| {
        let mut q = c.path.clone();
        q.extend_from_slice(extra);
        c.solver.check(&c.ar, &q, model)
    })
}

pub fn count_op() {
    let late = with(|c| match c.compile_deadline {
        Some(d) if c.ops % 64 == 0 => std::time::Instant::now() > d,
        _ => false,
    });
    if late {
        with(|c| c.compile_deadline = None);
        abort(Abort::Truncated("compilation exceeded its time cap".into()));
    }
    let (over, mem) = with(|c| {
        c.ops += 1;
        (c.active && c.ops > c.limits.max_ops, c.active && (c.ar.nodes.len() > 1_500_000 || c.ar.lin_entries > 12_000_000))
    });
    if over {
        abort(Abort::Truncated("cell-operation cap reached".into()));
    }
    if mem {
        abort(Abort::Truncated("term arena cap reached (memory bound of one program exploration)".into()));
    }
}

#[derive(Debug)]
pub enum PathEnd<R> {
    Done(R),
    Abort(Abort),
    Panic(String),
}

pub struct PathReport<R> {
    pub lits: Vec<Lit>,
    pub wit: Witness,
    pub end: PathEnd<R>,
    pub decisions: u32,
}

pub struct Exploration<R> {
    pub paths: Vec<PathReport<R>>,
    /// work items never started because the path cap was reached
    pub dropped_items: usize,
}

/// Explore all paths of `f` (up to the limits).  `f` is re-executed natively once per path.
pub fn explore<R>(f: impl FnMut() -> R) -> Exploration<R> {
    explore_from(Witness::default(), f)
}

/// Like `explore`, but the first path follows the given witness.
pub fn explore_from<R>(wit: Witness, mut f: impl FnMut() -> R) -> Exploration<R> {
    with(|c| {
        c.queue.clear();
        c.queue.push_back(Item { lits: vec![], wit });
        c.active = true;
    });
    let mut paths = Vec::new();
    let max_paths = with(|c| c.limits.max_paths) as usize;
    loop {
        let item = with(|c| c.queue.pop_front());
        let item = match item {
            Some(i) => i,
            None => break,
        };
        let late = with(|c| c.job_deadline.map_or(false, |d| std::time::Instant::now() > d));
        if paths.len() >= max_paths || late {
            with(|c| c.queue.push_front(item));
            break;
        }
        with(|c| c.start_item(item));
        LAST_PANIC.with(|p| *p.borrow_mut() = None);
        let r = catch_unwind(AssertUnwindSafe(|| f()));
        let end = match r {
            Ok(v) => PathEnd::Done(v),
            Err(payload) => match payload.downcast::<Abort>() {
                Ok(a) => PathEnd::Abort(*a),
                Err(_) => PathEnd::Panic(LAST_PANIC.with(|p| p.borrow_mut().take()).unwrap_or_else(|| "panic".into())),
            },
        };
        let (lits, wit, decisions) = with(|c| (c.path.clone(), c.wit.clone(), c.decisions));
        paths.push(PathReport { lits, wit, end, decisions });
    }
    let dropped = with(|c| {
        let n = c.queue.len();
        c.queue.clear();
        c.active = false;
        n
    });
    Exploration { paths, dropped_items: dropped }
}
