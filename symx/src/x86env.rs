//! Running the real JIT's machine code in the x86 model against a shadow `Context<uN>`:
//! the context words are read from the real `#[repr(C)]` object, runtime calls go to the
//! real shims (natively), symbolic cell values live in an overlay.

use crate::engine::{self, with};
use crate::io::{LogReader, LogWriter};
use crate::product::SubOutcome;
use crate::subject::{Mode, Ret};
use crate::term::T;
use crate::x86::{self, Env, Exit, State, RAX, RBP, RBX, RDI, RDX, RSI, RSP};
use hpbf::exec::{BaseJitCompiler, Executor};
use hpbf::runtime::Context;
use hpbf::CellType;

pub struct JitProg {
    pub code: Vec<u8>,
    pub min_accessed: isize,
    pub max_accessed: isize,
    pub temps: usize,
    pub entry_points: [usize; 3],
    pub width: u32,
}

fn build_typed<C: CellType>(code: &str, level: u32, limited: bool, safe: bool) -> Result<JitProg, String> {
    let jit = BaseJitCompiler::<C>::create(code, level).map_err(|e| format!("{:?}", e.kind))?;
    let bc = jit.verif_bytecode();
    Ok(JitProg {
        code: jit.print_mc(limited, safe),
        min_accessed: bc.min_accessed,
        max_accessed: bc.max_accessed,
        temps: bc.temps,
        entry_points: BaseJitCompiler::<C>::verif_runtime_entry_points(),
        width: C::BITS,
    })
}

pub fn build(code: &str, width: u32, level: u32, limited: bool, safe: bool) -> Result<JitProg, String> {
    match width {
        8 => build_typed::<u8>(code, level, limited, safe),
        16 => build_typed::<u16>(code, level, limited, safe),
        32 => build_typed::<u32>(code, level, limited, safe),
        _ => build_typed::<u64>(code, level, limited, safe),
    }
}

struct JitEnv<'a, C: CellType> {
    cxt: Box<Context<'a, C>>,
    entry: [usize; 3],
    w: u8,
    extend_calls: u32,
}

impl<'a, C: CellType> JitEnv<'a, C> {
    fn word(&self, off: u64) -> u64 {
        let base = &*self.cxt as *const Context<C> as *const u8;
        unsafe { std::ptr::read(base.add(off as usize) as *const u64) }
    }
}

impl<'a, C: CellType> Env for JitEnv<'a, C> {
    fn ctx_read(&mut self, off: u64) -> Result<T, String> {
        let v = self.word(off);
        Ok(with(|c| c.ar.konst(64, v)))
    }
    fn ctx_write(&mut self, off: u64, v: T) -> Result<(), String> {
        let v = with(|c| c.ar.as_const(v)).ok_or("a symbolic value is stored into a context word")?;
        if off != 16 && off != 24 {
            return Err(format!("generated code writes the context word at offset {} (only the tape offset and the budget are its to write)", off));
        }
        let base = &mut *self.cxt as *mut Context<C> as *mut u8;
        unsafe { std::ptr::write(base.add(off as usize) as *mut u64, v) };
        Ok(())
    }
    fn ctx_addr(&self) -> u64 {
        &*self.cxt as *const Context<C> as u64
    }
    fn tape(&mut self) -> (u64, u64) {
        (self.word(0), self.word(8))
    }
    fn cell_bytes(&self) -> u64 {
        (self.w / 8) as u64
    }
    fn call(&mut self, target: u64, st: &mut State) -> Result<Option<T>, String> {
        with(|c| c.no_unwind = true);
        let r = self.call_inner(target, st);
        let pending = with(|c| {
            c.no_unwind = false;
            c.pending_abort.take()
        });
        if let Some(a) = pending {
            engine::abort(a);
        }
        r
    }
}

impl<'a, C: CellType> JitEnv<'a, C> {
    fn call_inner(&mut self, target: u64, st: &mut State) -> Result<Option<T>, String> {
        let cw = self.w;
        let ctx_addr = self.ctx_addr();
        let rdi = with(|c| c.ar.as_const(st.regs[RDI]));
        if rdi != Some(ctx_addr) {
            return Err("runtime call whose first argument is not the context pointer".into());
        }
        if target as usize == self.entry[0] {
            let min = with(|c| c.ar.as_const(st.regs[RSI])).ok_or("extend called with a symbolic range")? as i64 as isize;
            let max = with(|c| c.ar.as_const(st.regs[RDX])).ok_or("extend called with a symbolic range")? as i64 as isize;
            let old_off = self.word(16) as i64;
            let f: extern "sysv64" fn(&mut Context<'static, C>, isize, isize) = unsafe { std::mem::transmute(target as usize) };
            let cx: &mut Context<'static, C> = unsafe { std::mem::transmute(&mut *self.cxt) };
            f(cx, min, max);
            self.extend_calls += 1;
            let delta = self.word(16) as i64 - old_off;
            if delta != 0 {
                let old: Vec<(i64, T)> = st.tape.drain().collect();
                for (k, v) in old {
                    st.tape.insert(k + delta, v);
                }
            }
            return Ok(Some(with(|c| c.ar.fresh(64))));
        }
        if target as usize == self.entry[1] {
            // the shim returns the byte zero-extended in rax, or all-ones on failure / absent input
            let f: extern "sysv64" fn(&mut Context<'static, C>) -> usize = unsafe { std::mem::transmute(target as usize) };
            let cx: &mut Context<'static, C> = unsafe { std::mem::transmute(&mut *self.cxt) };
            let native = f(cx);
            let armed = with(|c| c.armed_input.take());
            let rax = match armed {
                Some(k) => with(|c| c.ar.input(64, k)),
                None => with(|c| c.ar.konst(64, native as u64)),
            };
            let _ = cw;
            return Ok(Some(rax));
        }
        if target as usize == self.entry[2] {
            let v = with(|c| c.ar.trunc(cw, st.regs[RSI], 64));
            let placeholder = with(|c| {
                c.ar.new_eval_epoch();
                let w = c.wit.clone();
                c.ar.eval(v, &w)
            });
            with(|c| {
                if !c.no_output {
                    c.parked_out = Some(v);
                }
            });
            let f: extern "sysv64" fn(&mut Context<'static, C>, C) -> bool = unsafe { std::mem::transmute(target as usize) };
            let cx: &mut Context<'static, C> = unsafe { std::mem::transmute(&mut *self.cxt) };
            let failed = f(cx, C::from_u64(placeholder));
            let rax = with(|c| {
                let g = c.ar.fresh(64);
                let hi = c.ar.extract(56, g, 64, 8);
                let lo = c.ar.konst(8, failed as u64);
                c.ar.concat(64, hi, lo, 8)
            });
            return Ok(Some(rax));
        }
        Ok(None)
    }
}

const ENTRY_RSP: u64 = 0x0000_7ff0_0000_0008;

fn run_typed<C: CellType>(p: &JitProg, mode: Mode, no_input: bool, no_output: bool, max_steps: u64) -> SubOutcome {
    with(|c| {
        c.reset_io();
        c.seam_errors.clear();
        c.width = C::BITS as u8;
        c.no_output = no_output;
    });
    let input: Option<Box<dyn std::io::Read>> = if no_input { None } else { Some(Box::new(LogReader)) };
    let output: Option<Box<dyn std::io::Write>> = if no_output { None } else { Some(Box::new(LogWriter)) };
    let mut cxt = Box::new(Context::<C>::new(input, output));
    match mode {
        Mode::Limited(b) => cxt.budget = b,
        Mode::Unsafe(m) => cxt.memory.make_accessible(-m, m),
        Mode::Full => {}
    }
    // what enter_jit_code does before jumping into the code
    cxt.memory.make_accessible(p.min_accessed, p.max_accessed + 1);
    let mem_ptr = cxt.memory.current_ptr() as u64;
    let mut env = JitEnv::<C> { cxt, entry: p.entry_points, w: C::BITS as u8, extend_calls: 0 };
    let mut st = State::new(ENTRY_RSP);
    let ctx_addr = env.ctx_addr();
    st.regs[RDI] = with(|c| c.ar.konst(64, ctx_addr));
    st.regs[RSI] = with(|c| c.ar.konst(64, mem_ptr));
    let saved: Vec<(usize, T)> = [RBX, RBP, 12, 13, 14, 15].iter().map(|&r| (r, st.regs[r])).collect();
    let exit = st.run(&p.code, &mut env, max_steps, true);
    let ret = match exit {
        Exit::Ret(rax) => {
            let mut problem = None;
            for (r, t) in &saved {
                if st.regs[*r] != *t {
                    problem = Some(format!("callee-saved register r{} is not restored at return", r));
                }
            }
            let _ = (RSP, RAX, RDX);
            let al = with(|c| {
                let lo = c.ar.trunc(8, rax, 64);
                c.ar.as_const(lo)
            });
            match (problem, al, mode) {
                (Some(pb), _, _) => Ret::Err(format!("x86 model: {}", pb)),
                (None, Some(1), Mode::Limited(_)) => Ret::Finished(true),
                (None, Some(0), Mode::Limited(_)) => Ret::Finished(false),
                (None, Some(0), _) | (None, Some(1), _) => Ret::Ok,
                (None, other, _) => Ret::Err(format!("x86 model: return value {:?} is not 0 or 1", other)),
            }
        }
        Exit::Fault(s) => Ret::Err(format!("x86 model: {}", s)),
        Exit::StepCap => engine::abort(engine::Abort::Truncated("cell-operation cap reached".into())),
        Exit::Stopped => Ret::Err("x86 model: unexpected stop".into()),
    };
    let (events, seam_errors) = with(|c| (std::mem::take(&mut c.events), std::mem::take(&mut c.seam_errors)));
    SubOutcome { ret, events, seam_errors }
}

pub fn run(p: &JitProg, mode: Mode, no_input: bool, no_output: bool, max_steps: u64) -> SubOutcome {
    match p.width {
        8 => run_typed::<u8>(p, mode, no_input, no_output, max_steps),
        16 => run_typed::<u16>(p, mode, no_input, no_output, max_steps),
        32 => run_typed::<u32>(p, mode, no_input, no_output, max_steps),
        _ => run_typed::<u64>(p, mode, no_input, no_output, max_steps),
    }
}

/// Cross-check of the decoder against GNU objdump: same instruction boundaries.
pub fn objdump_boundaries(code: &[u8]) -> Option<Vec<usize>> {
    let path = format!("/tmp/symx-objdump-{}-{:?}.bin", std::process::id(), std::thread::current().id());
    std::fs::write(&path, code).ok()?;
    let out = std::process::Command::new("objdump").args(["-D", "-b", "binary", "-mi386:x86-64", &path]).output().ok()?;
    let _ = std::fs::remove_file(&path);
    let txt = String::from_utf8_lossy(&out.stdout);
    let mut v = Vec::new();
    for l in txt.lines() {
        let l = l.trim_start();
        if let Some((addr, _)) = l.split_once(':') {
            if let Ok(a) = usize::from_str_radix(addr.trim(), 16) {
                // continuation lines of long instructions carry bytes but no mnemonic
                if l.matches('\t').count() >= 2 {
                    v.push(a);
                }
            }
        }
    }
    Some(v)
}

pub fn model_boundaries(code: &[u8]) -> Result<Vec<usize>, String> {
    Ok(x86::disassemble(code)?.into_iter().map(|(a, _)| a).collect())
}

/// Selector-lemma support: run straight-line machine code built from a hand-made bytecode
/// program with an arbitrary (symbolic) initial tape window `cells[0..n]` at the pointer;
/// returns the final window.
pub fn run_window<C: CellType>(code: &[u8], entry_points: [usize; 3], cells: &[T], max_steps: u64) -> Result<Vec<T>, String> {
    run_window_at::<C>(code, entry_points, 0, cells, max_steps)
}

/// As `run_window`, with the window starting at cell offset `lo` (<= 0) relative to the pointer.
pub fn run_window_at<C: CellType>(code: &[u8], entry_points: [usize; 3], lo: isize, cells: &[T], max_steps: u64) -> Result<Vec<T>, String> {
    with(|c| {
        c.reset_io();
        c.seam_errors.clear();
        c.width = C::BITS as u8;
        c.no_output = true;
    });
    let mut cxt = Box::new(Context::<C>::new(None, None));
    cxt.memory.make_accessible(lo, lo + cells.len() as isize);
    let mem_ptr = cxt.memory.current_ptr() as u64;
    let mut env = JitEnv::<C> { cxt, entry: entry_points, w: C::BITS as u8, extend_calls: 0 };
    let mut st = State::new(ENTRY_RSP);
    let ctx_addr = env.ctx_addr();
    st.regs[RDI] = with(|c| c.ar.konst(64, ctx_addr));
    st.regs[RSI] = with(|c| c.ar.konst(64, mem_ptr));
    let (buf, _) = env.tape();
    let base = ((mem_ptr - buf) / env.cell_bytes()) as i64 + lo as i64;
    for (i, t) in cells.iter().enumerate() {
        if *t != 0 {
            st.tape.insert(base + i as i64, *t);
        }
    }
    let saved: Vec<(usize, T)> = [RBX, RBP, 12, 13, 14, 15].iter().map(|&r| (r, st.regs[r])).collect();
    match st.run(code, &mut env, max_steps, true) {
        Exit::Ret(_) => {
            for (r, t) in &saved {
                if st.regs[*r] != *t {
                    return Err(format!("callee-saved register r{} is not restored at return", r));
                }
            }
            // the pointer may not have moved (no Mov in lemma programs)
            let (buf2, _) = env.tape();
            let base2 = base + ((buf2 as i64 - buf as i64) / env.cell_bytes() as i64) * 0;
            Ok((0..cells.len()).map(|i| *st.tape.get(&(base2 + i as i64)).unwrap_or(&0)).collect())
        }
        Exit::Fault(s) => Err(s),
        Exit::StepCap => Err("step cap".into()),
        Exit::Stopped => Err("unexpected stop".into()),
    }
}
