//! Property definitions: which programs, widths, subjects and bounds each check uses.

use crate::checks::{run_jobs, Job, JobCfg, JobOut, OnlyOn, Spec, Want};
use crate::corpus;
use crate::engine::{IoCfg, Limits};
use crate::native::{self, Case};
use crate::refbf::{self, NEvent, NativeDom, RefStatus};
use crate::report::{self, aggregate, repo_root, seed, settle, write_evidence};
use crate::solver::Kind;
use crate::subject::{Backend, Mode};
use serde_json::{json, Value};
use std::io::Write;
use std::time::{Duration, Instant};

pub fn profile_name() -> &'static str {
    if cfg!(debug_assertions) {
        "dev (debug assertions on: trampolined dispatch)"
    } else {
        "release (debug assertions off: tail-called dispatch)"
    }
}

pub fn replay_file(path: &str) -> i32 {
    let txt = match std::fs::read_to_string(path) {
        Ok(t) => t,
        Err(e) => {
            println!("cannot read {}: {}", path, e);
            return 3;
        }
    };
    let v: Value = match serde_json::from_str(&txt) {
        Ok(v) => v,
        Err(e) => {
            println!("bad json: {}", e);
            return 3;
        }
    };
    if v.get("kind").and_then(|k| k.as_str()) == Some("sel") {
        return crate::sel::replay(&v);
    }
    if v.get("kind").and_then(|k| k.as_str()) == Some("probe") {
        return crate::probe::replay(&v);
    }
    if v.get("kind").and_then(|k| k.as_str()) == Some("c11") {
        return crate::c11::replay(&v);
    }
    if v.get("kind").and_then(|k| k.as_str()) == Some("x86") {
        println!("x86 replay files are handled by the x86 driver");
        return 3;
    }
    let case = match Case::from_json(&v) {
        Some(c) => c,
        None => {
            println!("not a replay case");
            return 3;
        }
    };
    if case.note.starts_with("compile-timeout") {
        // does building the executor (real cell type) finish?  A watchdog ends the replay after 15 s.
        let (b, l, w, n) = (case.backend.name().to_string(), case.level, case.width, case.program.len());
        let prog = report::short(&case.program);
        std::thread::spawn(move || {
            std::thread::sleep(std::time::Duration::from_secs(15));
            println!("REPRODUCED property=C13 {} L{} w{} program={:?}: building the executor for this {}-character program did not finish within 15 s", b, l, w, prog, n);
            let _ = std::io::stdout().flush();
            std::process::exit(1);
        });
        let t0 = Instant::now();
        let _ = crate::subject::compiled_rendering_w(case.backend, &case.program, case.level, case.width);
        println!("NOT-REPRODUCED: compilation finished in {:.2} s", t0.elapsed().as_secs_f64());
        return 0;
    }
    let r = native::run_ref_native(&case, 50_000_000);
    match r.status {
        RefStatus::Halted => println!("REF halted steps={} events={}", r.steps, r.events.len()),
        RefStatus::Faulted => println!("REF faulted steps={} events={}", r.steps, r.events.len()),
        RefStatus::Divergent { .. } => println!("REF divergent (state repeats) events={}", r.events.len()),
        RefStatus::Truncated => println!("REF truncated"),
    }
    let _ = std::io::stdout().flush();
    match native::judge(&case) {
        Ok(Some(d)) => {
            println!("REPRODUCED property={} {} L{} w{} {:?} program={:?} input={:?}: {}", case.property, case.backend.name(), case.level, case.width, case.mode, report::short(&case.program), case.input, d);
            1
        }
        Ok(None) => {
            println!("NOT-REPRODUCED: native run agrees with the reference");
            0
        }
        Err(e) => {
            println!("replay error: {}", e);
            3
        }
    }
}

/// Validate the oracle against the repository's own expected outputs.
fn validate_refbf() -> Result<usize, String> {
    let exps = corpus::repo_expectations(&repo_root());
    if exps.is_empty() {
        return Err("no expectations could be extracted from src/exec/testdef.rs".into());
    }
    for (code, input, expected, bits) in &exps {
        let mut dom = NativeDom::new(*bits, input);
        let r = refbf::run(&mut dom, code, 100_000_000, false);
        if r.status != RefStatus::Halted {
            return Err(format!("refbf did not halt on a repository test program ({} bits)", bits));
        }
        let outb: Vec<u8> = dom.events.iter().filter_map(|e| if let NEvent::Out(b) = e { Some(*b) } else { None }).collect();
        if &outb != expected {
            return Err(format!("refbf output {:?} differs from the repository's expected output {:?}", String::from_utf8_lossy(&outb), String::from_utf8_lossy(expected)));
        }
    }
    Ok(exps.len())
}

struct Plan {
    property: String,
    jobs: Vec<Job>,
    specs: Box<dyn Fn(&Job) -> Vec<Spec> + Sync>,
    cfg: JobCfg,
    time_box: Duration,
    level: &'static str,
    functions: Vec<&'static str>,
    rule: String,
    assumptions: Vec<String>,
    corpus_desc: Value,
}

fn widths(tier: &str) -> Vec<u32> {
    if tier == "thorough" {
        vec![8, 16, 32, 64]
    } else {
        vec![8, 64]
    }
}

fn base_cfg(property: &str, tier: &str) -> JobCfg {
    let thorough = tier == "thorough";
    JobCfg {
        property: property.to_string(),
        limits: if thorough { Limits::thorough() } else { Limits::quick() },
        io: IoCfg { eof_forks: if thorough { 6 } else { 3 }, out_fault_forks: 0, in_fault_forks: 0, out_fault_ok0: false },
        ref_steps: if thorough { 200_000 } else { 20_000 },
        solver: Kind::Z3,
        timeout_ms: if thorough { 60_000 } else { 4_000 },
        detect_divergence: false,
        want: Want::Halted,
        profile: profile_name().to_string(),
        job_time_cap_s: if thorough { 20 } else { 3 },
        twice: false,
    }
}

/// The shared program corpus: (tag, code).
fn corpus_programs(tier: &str, with_comments: bool) -> (Vec<(String, String)>, Value) {
    let thorough = tier == "thorough";
    let sd = seed();
    let mut progs: Vec<(String, String)> = Vec::new();
    let covers = corpus::cover_programs();
    let cover_count = covers.len();
    for p in covers {
        progs.push(("COVER".into(), p));
    }
    let n = 5;
    let exh = corpus::exh(n, corpus::BF, !thorough);
    let exh_count = exh.len();
    for p in exh {
        progs.push(("EXH".into(), p));
    }
    // stratified sample of the next length
    let mut rng = corpus::Rng::new(sd);
    let next = corpus::exh(n + 1, corpus::BF, true);
    let next: Vec<String> = next.into_iter().filter(|p| p.len() == n + 1 && corpus::needs_solver(p)).collect();
    let sample_n = if thorough { 6000 } else { 600 };
    let mut sampled = 0;
    if !next.is_empty() {
        for _ in 0..sample_n {
            let p = rng.pick(&next).clone();
            progs.push(("EXH+1".into(), p));
            sampled += 1;
        }
    }
    let gens = corpus::gen(sd, if thorough { 400 } else { 120 });
    let gen_count = gens.len();
    for p in gens {
        progs.push(("GEN".into(), p));
    }
    let rands = corpus::gen_rand(sd, if thorough { 30000 } else { 4000 });
    let rand_count = rands.len();
    for p in rands {
        progs.push(("RAND".into(), p));
    }
    let press = corpus::gen_pressure(sd, if thorough { 3000 } else { 400 });
    let press_count = press.len();
    for p in press {
        progs.push(("PRESSURE".into(), p));
    }
    let lives = corpus::gen_live(sd, if thorough { 400 } else { 60 });
    let live_count = lives.len();
    for p in lives {
        progs.push(("LIVE".into(), p));
    }
    let nests = corpus::gen_nest(sd, if thorough { 4000 } else { 700 });
    let nest_count = nests.len();
    for p in nests {
        progs.push(("NEST".into(), p));
    }
    let sqs = corpus::gen_sqlive(sd, if thorough { 400 } else { 120 });
    let sq_count = sqs.len();
    for p in sqs {
        progs.push(("SQLIVE".into(), p));
    }
    let deeps = corpus::gen_deep();
    let deep_count = deeps.len();
    for p in deeps {
        progs.push(("DEEP".into(), p));
    }
    let geos = corpus::gen_geo();
    let geo_count = geos.len();
    for p in geos {
        progs.push(("GEO".into(), p));
    }
    let dses = corpus::gen_dse();
    let dse_count = dses.len();
    for p in dses {
        progs.push(("DSE".into(), p));
    }
    let rots = corpus::gen_rot(sd, if thorough { 300 } else { 40 });
    let rot_count = rots.len();
    for p in rots {
        progs.push(("ROT".into(), p));
    }
    let structs = corpus::gen_struct(sd, if thorough { 3000 } else { 500 });
    let struct_count = structs.len();
    for p in structs {
        progs.push(("STRUCT".into(), p));
    }
    let repo = corpus::repo_programs(&repo_root());
    let repo_count = repo.len();
    for (t, p) in repo {
        if p.len() > 3000 && !thorough {
            continue;
        }
        progs.push((format!("REPO:{}", t), p));
    }
    let mut comment_count = 0;
    if with_comments {
        // comment bytes and a 2-byte UTF-8 character interleaved into short programs
        let base = corpus::exh(4, corpus::BF, true);
        let base: Vec<String> = base.into_iter().filter(|p| corpus::needs_solver(p) || p.contains('.')).collect();
        for (i, p) in base.iter().enumerate() {
            if !thorough && i % 7 != (sd % 7) as usize {
                continue;
            }
            let pos = (rng.below(p.len() as u64 + 1)) as usize;
            let ins = *rng.pick(&["x", "é", "\n", "#!", " "]);
            let mut q = p.clone();
            q.insert_str(pos, ins);
            progs.push(("COMMENT".into(), q));
            comment_count += 1;
        }
    }
    // de-duplicate, keep order
    let mut seen = std::collections::HashSet::new();
    progs.retain(|(_, p)| seen.insert(p.clone()));
    let desc = json!({
        "EXH": format!("all {} bracket-balanced strings over +-<>[]., of length <= {}{}", exh_count, n, if thorough { "" } else { " without adjacent cancelling pairs" }),
        "EXH+1": format!("{} draws (seed {}) from the length-{} strings that contain both ',' and '['", sampled, sd, n + 1),
        "GEN": format!("{} generated idiom programs (seed {})", gen_count, sd),
        "RAND": format!("{} short random programs from a grammar biased to clear loops, scans, (un)balanced loops and I/O next to loops (seed {})", rand_count, sd),
        "PRESSURE": format!("{} programs keeping values alive across loops, ifs and I/O (copy idioms inside input-controlled nested loops; seed {})", press_count, sd),
        "LIVE": format!("{} programs keeping 3..14 values alive across I/O and far moves (seed {})", live_count, sd),
        "NEST": format!("{} loops whose body holds a pointer-moving inner loop followed by loops / I/O at the shifted offsets (seed {})", nest_count, sd),
        "SQLIVE": format!("{} products (x*x or x*b) computed between two uses of other live values (seed {})", sq_count, sd),
        "COVER": format!("{} programs of the generated families that reach compile-path regions the first ~90 programs of each family do not (coverage-instrumented build, development aid)", cover_count),
        "DEEP": format!("{} programs: bracket nesting 64..300 levels (around the 8-bit boundary), in skipped and in entered loops (deterministic)", deep_count),
        "GEO": format!("{} programs: counted loops updating a cell as y = k*y + d (geometric closed form), constant and input-dependent counts and start values; a two-cell linear recurrence (deterministic)", geo_count),
        "DSE": format!("{} programs: store, barrier (moving scans, moves, loops), second store at the same relative offset, dump of the neighbourhood; store, conditional overwrite, permutation of the cells, dump; constant and input-dependent stores (deterministic)", dse_count),
        "ROT": format!("{} k-cell rotations with arithmetic inside an input-controlled loop, k up to 16 (stack temporaries in the JIT; seed {})", rot_count, sd),
        "STRUCT": format!("{} structured programs (assignments, preserving/destructive multiply-adds, counted loops, ifs over 4 variables; seed {})", struct_count, sd),
        "REPO": format!("{} programs extracted from src/exec/testdef.rs and examples/", repo_count),
        "COMMENT": format!("{} programs with an interleaved comment / multi-byte character", comment_count),
        "distinct_programs": progs.len(),
    });
    (progs, desc)
}

fn jobs_for(progs: &[(String, String)], ws: &[u32]) -> Vec<Job> {
    // development aid: restrict the corpus to one family (never set by ./check)
    let only = std::env::var("SYMX_ONLY_FAMILY").ok();
    let filtered: Vec<(String, String)>;
    let progs: &[(String, String)] = if let Some(f) = &only {
        filtered = progs.iter().filter(|(t, _)| t.starts_with(f.as_str())).cloned().collect();
        &filtered
    } else {
        progs
    };
    let mut jobs = Vec::new();
    // solver-relevant programs first so the time box cuts the cheap tail, not the interesting head
    // interleave the corpus families round-robin so that a time box cuts every family
    // proportionally instead of starving the later ones
    let mut fams: std::collections::BTreeMap<String, Vec<&(String, String)>> = std::collections::BTreeMap::new();
    for e in progs.iter() {
        let fam = if e.0.starts_with("REPO") { "REPO".to_string() } else if e.0.starts_with("EXH") { if corpus::needs_solver(&e.1) { "EXH-s".to_string() } else { "EXH-c".to_string() } } else { e.0.clone() };
        fams.entry(fam).or_default().push(e);
    }
    // plain round-robin over the families: the small targeted families are covered completely
    // before the time box ends, the big enumerated ones (EXH, RAND) fill the rest
    let mut order: Vec<&(String, String)> = Vec::new();
    let total: usize = progs.len();
    let mut pos: std::collections::BTreeMap<String, usize> = fams.keys().map(|k| (k.clone(), 0)).collect();
    while order.len() < total {
        for (k, v) in fams.iter() {
            let t = pos.get_mut(k).unwrap();
            if *t < v.len() {
                order.push(v[*t]);
                *t += 1;
            }
        }
    }
    for (t, p) in order {
        for &w in ws {
            jobs.push(Job { tag: t.clone(), code: p.clone(), width: w, ok0: false, guard: 0 });
        }
    }
    jobs
}

/// Guard placement: programs that roam or depend on input get both placements, the rest alternate.
fn with_guards(jobs: Vec<Job>) -> Vec<Job> {
    let mut out = Vec::with_capacity(jobs.len() * 2);
    for (i, j) in jobs.into_iter().enumerate() {
        if j.tag == "ROAM" || j.tag.starts_with("REPO") || corpus::needs_solver(&j.code) {
            out.push(Job { guard: 1, ..j.clone() });
            out.push(Job { guard: 2, ..j });
        } else {
            out.push(Job { guard: 1 + (i % 2) as u8, ..j });
        }
    }
    out
}

fn plan(property: &str, tier: &str) -> Option<Plan> {
    let thorough = tier == "thorough";
    let ws = widths(tier);
    match property {
        "C04" => {
            let (progs, desc) = corpus_programs(tier, true);
            Some(Plan {
                property: property.into(),
                jobs: jobs_for(&progs, &ws),
                specs: Box::new(|_j| vec![Spec::full(Backend::Inplace, 0)]),
                cfg: base_cfg(property, tier),
                time_box: Duration::from_secs(if thorough { 1200 } else { 150 }),
                level: "model_checking",
                functions: vec!["hpbf::exec::InplaceInterpreter::<SymCell<W>>::{create, execute}", "hpbf::runtime::{Memory::read, Memory::write, Memory::mov, Memory::make_accessible, Context::input, Context::output}"],
                rule: "one case = (program, width); non-trivial = the exploration forked (>= 2 paths) or needed >= 1 solver query".into(),
                assumptions: vec![],
                corpus_desc: desc,
            })
        }
        "C01" => {
            let (progs, desc) = corpus_programs(tier, false);
            let levels: Vec<u32> = if thorough { vec![0, 1, 2, 3, 4, u32::MAX] } else { vec![0, 1, 2, 3, 4] };
            Some(Plan {
                property: property.into(),
                jobs: jobs_for(&progs, &ws),
                specs: Box::new(move |_j| levels.iter().map(|&l| Spec::full(Backend::Ir, l)).collect()),
                cfg: base_cfg(property, tier),
                time_box: Duration::from_secs(if thorough { 1200 } else { 170 }),
                level: "translation_validation",
                functions: vec!["hpbf::ir::Program::<SymCell<W>>::parse", "hpbf::ir::Program::optimize (src/opt.rs, all passes)", "hpbf::exec::IrInterpreter::<SymCell<W>>::{create, execute}", "hpbf::ir::Expr::evaluate", "hpbf::runtime::Memory / Context"],
                rule: "one case = (program, width) with all optimisation levels run on every explored path; non-trivial = forked or needed >= 1 solver query".into(),
                assumptions: vec![],
                corpus_desc: desc,
            })
        }
        "C02" => {
            let (progs, desc) = corpus_programs(tier, false);
            let levels: Vec<u32> = vec![0, 1, 2, 3];
            Some(Plan {
                property: property.into(),
                // release part (tail-call dispatch): the tape and the interpreter context sit against guard pages and the
                // worker runs under the supervisor, so that a subject that writes outside its blocks is reported as a case
                // instead of corrupting the heap of the checking process
                jobs: if cfg!(debug_assertions) { jobs_for(&progs, &ws) } else { jobs_for(&progs, &ws).into_iter().enumerate().map(|(i, j)| Job { guard: 1 + (i % 2) as u8, ..j }).collect() },
                specs: Box::new(move |_j| levels.iter().map(|&l| Spec::full(Backend::Bc, l)).collect()),
                cfg: base_cfg(property, tier),
                time_box: Duration::from_secs(if thorough { 1000 } else { 100 }),
                level: "translation_validation",
                functions: vec!["hpbf::ir::Program::parse / optimize", "hpbf::bc::CodeGen::translate(_, 2, true)", "hpbf::exec::BcInterpreter::<SymCell<W>>::{create, build_threaded_code, build_context, execute_in}", "hpbf::exec::bcint::ops::* (threaded-code operations)"],
                rule: "one case = (program, width) with levels 0..3 run on every explored path, in the build profile named in coverage.profile; non-trivial = forked or needed >= 1 solver query".into(),
                assumptions: vec![],
                corpus_desc: desc,
            })
        }

        "C07" => {
            let (progs, desc) = corpus_programs(tier, false);
            let budgets: Vec<usize> = if thorough { (0..=48).collect() } else { vec![0, 1, 2, 3, 4, 6, 9, 12] };
            let cfgs: Vec<(Backend, u32)> = if thorough {
                vec![(Backend::Inplace, 0), (Backend::Ir, 0), (Backend::Ir, 1), (Backend::Ir, 2), (Backend::Ir, 3), (Backend::Bc, 0), (Backend::Bc, 1), (Backend::Bc, 2), (Backend::Bc, 3), (Backend::Jit, 0), (Backend::Jit, 1), (Backend::Jit, 2), (Backend::Jit, 3)]
            } else {
                vec![(Backend::Inplace, 0), (Backend::Ir, 0), (Backend::Ir, 2), (Backend::Bc, 0), (Backend::Bc, 2), (Backend::Jit, 0), (Backend::Jit, 2)]
            };
            let mut cfg = base_cfg(property, tier);
            cfg.detect_divergence = true;
            cfg.want = Want::Limited;
            cfg.job_time_cap_s = if thorough { 20 } else { 4 };
            let nb = budgets.len();
            Some(Plan {
                property: property.into(),
                jobs: jobs_for(&progs, &ws),
                specs: Box::new(move |_j| {
                    let mut v = Vec::new();
                    for &(b, l) in &cfgs {
                        for &bud in &budgets {
                            v.push(Spec::limited(b, l, bud));
                        }
                        v.push(Spec { must_finish: true, ..Spec::limited(b, l, 1usize << 62) });
                    }
                    v
                }),
                cfg,
                time_box: Duration::from_secs(if thorough { 1200 } else { 170 }),
                level: "model_checking",
                functions: vec!["hpbf::exec::{InplaceInterpreter, IrInterpreter, BcInterpreter}::<SymCell<W>>::execute_limited", "hpbf::exec::bcint::{build_threaded_code (limited=true), ops::limit}", "hpbf::exec::irint::execute_block::<_, true>"],
                rule: format!("one case = (program, width); every explored path runs execute_limited for {} budgets plus 2^62 on each backend/level; non-trivial = forked or needed >= 1 solver query", nb),
                assumptions: vec!["budgets are enumerated (Context::budget is a usize, not a cell): the listed budgets exhaustively and one huge budget; budgets in between are outside the claim".into(), "the baseline JIT is covered through the x86 model of its machine code".into()],
                corpus_desc: desc,
            })
        }
        "C08" => {
            let (progs, desc) = corpus_programs(tier, false);
            let cfgs: Vec<(Backend, u32)> = if thorough {
                vec![(Backend::Inplace, 0), (Backend::Ir, 0), (Backend::Ir, 1), (Backend::Ir, 2), (Backend::Ir, 3), (Backend::Bc, 0), (Backend::Bc, 1), (Backend::Bc, 2), (Backend::Bc, 3), (Backend::Jit, 0), (Backend::Jit, 1), (Backend::Jit, 2), (Backend::Jit, 3)]
            } else {
                vec![(Backend::Inplace, 0), (Backend::Ir, 0), (Backend::Ir, 2), (Backend::Bc, 0), (Backend::Bc, 2), (Backend::Jit, 0), (Backend::Jit, 2)]
            };
            let mut cfg = base_cfg(property, tier);
            cfg.io = IoCfg { eof_forks: if thorough { 3 } else { 2 }, out_fault_forks: if thorough { 12 } else { 6 }, in_fault_forks: if thorough { 6 } else { 3 }, out_fault_ok0: false };
            cfg.job_time_cap_s = if thorough { 20 } else { 4 };
            let mut jobs = jobs_for(&progs, &ws);
            // the Ok(0) flavour of a refused write, on the programs that write
            let extra: Vec<Job> = jobs.iter().filter(|j| j.code.contains('.') && j.width == 8).map(|j| Job { ok0: true, ..j.clone() }).collect();
            // interleave
            let mut merged = Vec::with_capacity(jobs.len() + extra.len());
            let mut ei = extra.into_iter();
            for (i, j) in jobs.drain(..).enumerate() {
                merged.push(j);
                if i % 2 == 0 {
                    if let Some(e) = ei.next() {
                        merged.push(e);
                    }
                }
            }
            merged.extend(ei);
            Some(Plan {
                property: property.into(),
                jobs: merged,
                specs: Box::new(move |_j| {
                    let mut v = Vec::new();
                    for &(b, l) in &cfgs {
                        v.push(Spec::full(b, l));
                        v.push(Spec { no_input: true, ..Spec::full(b, l) });
                        v.push(Spec { no_output: true, ..Spec::full(b, l) });
                    }
                    v
                }),
                cfg,
                time_box: Duration::from_secs(if thorough { 1200 } else { 170 }),
                level: "fault_enumeration",
                functions: vec!["hpbf::runtime::Context::{input, output}", "hpbf::exec::{InplaceInterpreter, IrInterpreter, BcInterpreter}::<SymCell<W>>::execute", "hpbf::exec::bcint::ops::{input, output}"],
                rule: "one case = (program, width, flavour of refused write); the failing event index is a free decision of the exploration (every position among the first K outputs / inputs on every explored path), plus the configurations input absent and output absent; non-trivial = forked or needed >= 1 solver query".into(),
                assumptions: vec!["the baseline JIT is covered through the x86 model of its machine code".into()],
                corpus_desc: desc,
            })
        }
        "C05" => {
            let (progs, desc) = corpus_programs(tier, false);
            let cfgs: Vec<(Backend, u32)> = if thorough {
                vec![(Backend::Inplace, 0), (Backend::Ir, 0), (Backend::Ir, 1), (Backend::Ir, 2), (Backend::Ir, 3), (Backend::Bc, 0), (Backend::Bc, 1), (Backend::Bc, 2), (Backend::Bc, 3), (Backend::Jit, 0), (Backend::Jit, 1), (Backend::Jit, 2), (Backend::Jit, 3)]
            } else {
                vec![(Backend::Inplace, 0), (Backend::Ir, 1), (Backend::Ir, 2), (Backend::Ir, 3), (Backend::Bc, 1), (Backend::Bc, 2), (Backend::Bc, 3), (Backend::Jit, 1), (Backend::Jit, 2), (Backend::Jit, 3)]
            };
            let mut cfg = base_cfg(property, tier);
            cfg.detect_divergence = true;
            cfg.want = Want::Divergence;
            cfg.job_time_cap_s = if thorough { 20 } else { 4 };
            Some(Plan {
                property: property.into(),
                jobs: jobs_for(&progs, &ws),
                specs: Box::new(move |_j| {
                    let mut v = Vec::new();
                    for &(b, l) in &cfgs {
                        v.push(Spec { only_on: Some(OnlyOn::Halted), ..Spec::full(b, l) });
                        v.push(Spec { only_on: Some(OnlyOn::Divergent), ..Spec::limited(b, l, 64) });
                        v.push(Spec { only_on: Some(OnlyOn::Divergent), ..Spec::limited(b, l, 256) });
                    }
                    v
                }),
                cfg,
                time_box: Duration::from_secs(if thorough { 1200 } else { 170 }),
                level: "model_checking",
                functions: vec!["hpbf::opt (infinite / no_return / no_continue classification)", "hpbf::bc::CodeGen (Scan lowering)", "hpbf::exec::{InplaceInterpreter, IrInterpreter, BcInterpreter}::<SymCell<W>>::{execute, execute_limited}"],
                rule: "one case = (program, width); on reference paths proved divergent by a solver-checked state recurrence every backend/level must stay unfinished under budgets 64 and 256 with events a prefix of the periodic canonical stream; on halted paths the unlimited call must return within the operation cap; non-trivial = forked or needed >= 1 solver query".into(),
                assumptions: vec!["non-return of the subject is established only up to budget 256 (a subject that would return after more back-edges is outside the bound)".into(), "divergence that never repeats a machine state is not classified".into(), "the baseline JIT is covered through the x86 model of its machine code (exact per-access bounds checks)".into()],
                corpus_desc: desc,
            })
        }
        "C10" => {
            let (mut progs, desc) = corpus_programs(tier, false);
            for p in corpus::gen_roaming(seed(), if thorough { 200 } else { 60 }) {
                progs.push(("ROAM".into(), p));
            }
            let levels: Vec<u32> = if thorough { vec![0, 1, 2, 3] } else { vec![0, 2, 3] };
            Some(Plan {
                property: property.into(),
                jobs: with_guards(jobs_for(&progs, &ws)),
                // the release part (tail-call dispatch: the interpreter does not re-enter `enter_ops`, and so does not
                // re-grow the tape, before every instruction) runs the interpreter only; the JIT is profile-independent
                specs: Box::new(move |_j| levels.iter().flat_map(|&l| if cfg!(debug_assertions) { vec![Spec { mode: Mode::Unsafe(0), ..Spec::full(Backend::Bc, l) }, Spec { mode: Mode::Unsafe(0), ..Spec::full(Backend::Jit, l) }] } else { vec![Spec { mode: Mode::Unsafe(0), ..Spec::full(Backend::Bc, l) }] }).collect()),
                cfg: base_cfg(property, tier),
                time_box: Duration::from_secs(if thorough { 1000 } else { 150 }),
                level: "model_checking",
                functions: vec!["hpbf::exec::BcInterpreter::<SymCell<W>>::execute_unsafe", "hpbf::exec::bcint::ops::{movl, movr, scanl, scanr}::<_, false>", "hpbf::runtime::Memory::make_accessible"],
                rule: "one case = (program, width); execute_unsafe on a context pre-grown to the canonical excursion of the path plus the program length (rounded to whole pages), both ends of the region fenced by PROT_NONE pages; non-trivial = forked or needed >= 1 solver query".into(),
                assumptions: vec!["the baseline JIT's static mode is covered through the x86 model (exact per-access bounds checks against the pre-grown region)".into()],
                corpus_desc: desc,
            })
        }

        "C06" => {
            let (mut progs, desc) = corpus_programs(tier, false);
            for p in corpus::gen_roaming(seed(), if thorough { 300 } else { 100 }) {
                progs.push(("ROAM".into(), p));
            }
            let cfgs: Vec<(Backend, u32)> = if !cfg!(debug_assertions) {
                // release part: the bytecode interpreter with tail-call dispatch (a debug build re-enters `enter_ops`,
                // which re-establishes the access window, before every instruction and so hides window errors of single ops)
                if thorough { vec![(Backend::Bc, 0), (Backend::Bc, 1), (Backend::Bc, 2), (Backend::Bc, 3)] } else { vec![(Backend::Bc, 0), (Backend::Bc, 2), (Backend::Bc, 3)] }
            } else if thorough {
                vec![(Backend::Inplace, 0), (Backend::Ir, 0), (Backend::Ir, 2), (Backend::Ir, 3), (Backend::Bc, 0), (Backend::Bc, 1), (Backend::Bc, 2), (Backend::Bc, 3), (Backend::Jit, 0), (Backend::Jit, 1), (Backend::Jit, 2), (Backend::Jit, 3)]
            } else {
                vec![(Backend::Inplace, 0), (Backend::Ir, 2), (Backend::Bc, 0), (Backend::Bc, 2), (Backend::Bc, 3), (Backend::Jit, 0), (Backend::Jit, 2)]
            };
            Some(Plan {
                property: property.into(),
                jobs: with_guards(jobs_for(&progs, &ws)),
                specs: Box::new(move |_j| cfgs.iter().map(|&(b, l)| Spec::full(b, l)).collect()),
                cfg: base_cfg(property, tier),
                time_box: Duration::from_secs(if thorough { 1200 } else { 170 }),
                level: "model_checking",
                functions: vec!["hpbf::runtime::Memory::{read, write, write_out_of_bounds, make_accessible, mov, current_ptr, set_current_ptr, check_ptr}", "hpbf::exec::bcint::ops::{enter_ops, checkl, checkr, movl, movr, scanl, scanr}::<_, true> and every straight-line op", "hpbf::exec::bcint::BcInterpreter::{build_context, free_context}", "hpbf::exec::{InplaceInterpreter, IrInterpreter}::execute"],
                rule: "one case = (program, width, guard placement); the real interpreters run symbolically while every alloc_zeroed block (tape, interpreter context with temporaries) sits flush against a PROT_NONE page on the stated side; a fault aborts the run and is replayed natively; events must equal the reference (cells keep their values across reallocations); non-trivial = forked or needed >= 1 solver query".into(),
                assumptions: vec!["the guard page detects accesses up to one page beyond the block on the flush side and anywhere in freed blocks; on the other side only beyond the page slack".into(), "the baseline JIT is covered through the x86 model of its machine code (exact per-access bounds checks)".into()],
                corpus_desc: desc,
            })
        }

        "C03" => {
            let (progs, desc) = corpus_programs(tier, false);
            let levels: Vec<u32> = if thorough { vec![0, 1, 2, 3] } else { vec![0, 2, 3] };
            Some(Plan {
                property: property.into(),
                jobs: jobs_for(&progs, &ws),
                specs: Box::new(move |_j| levels.iter().map(|&l| Spec::full(Backend::Jit, l)).collect()),
                cfg: base_cfg(property, tier),
                time_box: Duration::from_secs(if thorough { 1200 } else { 170 }),
                level: "translation_validation",
                functions: vec!["hpbf::exec::BaseJitCompiler::<uN>::{create, compile_program (print_mc)}", "hpbf::exec::basejit::codegen::{emit_prologue, emit_program, emit_epilogue, fix_relocations, emit_pre_call, emit_post_call}", "hpbf::exec::basejit::asm::* (encoder)", "runtime shims hpbf_context_{extend,input,output} called natively on a shadow Context<uN>"],
                rule: "one case = (program, width) with the machine code of every level executed in the x86 model on every explored path (registers, stack slots and tape cells are SMT terms; every address concrete and bounds-checked); non-trivial = forked or needed >= 1 solver query".into(),
                assumptions: vec!["the x86-64 model (decoder and semantics of the emitted subset, written from the Intel SDM; instruction boundaries cross-checked against objdump in the thorough tier)".into(), "caller-saved registers are havocked after every runtime call; upper bits of narrow return values are arbitrary".into()],
                corpus_desc: desc,
            })
        }
        "C13" => {
            let (mut progs, desc) = corpus_programs(tier, false);
            // MULCHAIN: chains of n multiplications whose factors are still pending sums (what the
            // optimiser's guards against expression blow-up exist for); compile time must stay small
            let sq = "[->+>+<<]>[->[-<<+>>>+<]>[-<+>]<<]>[-]<<+";
            let pr = "[->>+<<]>>[-<[-<+>>>+<<]>>[-<<+>>]<]<+<";
            for n in 2..=(if thorough { 18 } else { 14 }) {
                progs.push(("MULCHAIN".into(), format!(",{}.", sq.repeat(n))));
                progs.push(("MULCHAIN".into(), format!(",>,<{}.>.", pr.repeat(n))));
            }
            let mut cfg = base_cfg(property, tier);
            cfg.twice = true;
            let levels: Vec<u32> = if thorough { vec![0, 1, 2, 3, 4] } else { vec![0, 2, 3] };
            Some(Plan {
                property: property.into(),
                jobs: jobs_for(&progs, &ws),
                specs: Box::new(move |_j| {
                    let mut v = vec![Spec::full(Backend::Inplace, 0)];
                    for &l in &levels {
                        v.push(Spec::full(Backend::Ir, l));
                        v.push(Spec::full(Backend::Bc, l));
                        v.push(Spec::full(Backend::Jit, l));
                    }
                    v
                }),
                cfg,
                time_box: Duration::from_secs(if thorough { 1000 } else { 150 }),
                level: "model_checking",
                functions: vec!["hpbf::ir::Program::parse", "hpbf::opt::optimize", "hpbf::bc::CodeGen::translate", "hpbf::exec::BcInterpreter::{build_threaded_code, build_context}", "Executable::execute called twice per executor on fresh contexts"],
                rule: "one case = (program, width); every executor is built under catch_unwind and executed twice on every explored path, the two symbolic event logs must be identical terms; non-trivial = forked or needed >= 1 solver query".into(),
                assumptions: vec!["claimed part: totality of compilation on the corpus and re-execution determinism; independence from hash seeds, cross-process determinism and the complexity clause are not decidable by this technique and are not claimed; two monitors (sampling, not solver-decided) report on them: every executor is compiled four times in one process and the renderings compared, and every compilation runs under a time cap (10 s quick / 30 s thorough) with a family of 2..14-fold multiplication chains aimed at the optimiser's blow-up guards".into()],
                corpus_desc: desc,
            })
        }
        _ => None,
    }
}

// ---------------------------------------------------------------------------------------------
// Pre-screen (scheduling only, decides nothing): every corpus program is run natively - real
// cell types, real back ends - on two fixed inputs against the reference; programs that show a
// difference are moved to the front of the job list, so that the time-boxed symbolic check reaches
// them whatever share of the box their family gets.  On a tree where the property holds nothing is
// flagged and the order is unchanged.  Runs in a child process (a crashing or hanging subject
// cannot take the check down); whatever it printed before its time cap is used.

const PRESCREEN_INPUTS: [[u8; 8]; 2] = [[1, 2, 3, 4, 5, 6, 7, 8], [0, 255, 7, 0, 128, 1, 9, 3]];

const PRESCREEN_MORE_INPUTS: [[u8; 8]; 4] = [[0, 0, 0, 0, 0, 0, 0, 0], [3, 5, 4, 2, 1, 0, 6, 7], [255, 254, 2, 128, 127, 64, 1, 200], [2, 2, 2, 2, 2, 2, 2, 2]];

fn prescreen_one(code: &str) -> bool {
    let configs: [(Backend, u32); 6] = [(Backend::Ir, 1), (Backend::Ir, 3), (Backend::Bc, 0), (Backend::Bc, 3), (Backend::Jit, 0), (Backend::Jit, 3)];
    // development aid: SYMX_PRESCREEN_DEEP=1 screens with six inputs at all four widths (a hunt, not part of any check)
    let deep = std::env::var("SYMX_PRESCREEN_DEEP").is_ok();
    let widths: &[u32] = if deep { &[8, 16, 32, 64] } else { &[8, 64] };
    let mut inputs: Vec<[u8; 8]> = PRESCREEN_INPUTS.to_vec();
    if deep {
        inputs.extend(PRESCREEN_MORE_INPUTS.iter().copied());
    }
    for &w in widths {
        for inp in inputs.iter() {
            let base = Case {
                property: "prescreen".into(), backend: Backend::Inplace, width: w, level: 0, mode: Mode::Limited(2_000_000), program: code.to_string(), input: inp.to_vec(),
                fail_read_at: None, fail_write_at: None, out_ok0: false, no_input: false, no_output: false, note: String::new(), profile: String::new(), guard: 0,
            };
            let r = native::run_ref_native(&base, 20_000);
            if r.status != RefStatus::Halted {
                continue;
            }
            for (b, l) in configs.iter() {
                let c = Case { backend: *b, level: *l, ..base.clone() };
                let res = std::panic::catch_unwind(std::panic::AssertUnwindSafe(|| native::run_native(&c)));
                match res {
                    Ok(run) => match run.ret {
                        Ok(crate::subject::Ret::Finished(true)) if run.events == r.events => {}
                        _ => return true,
                    },
                    Err(_) => return true,
                }
            }
        }
    }
    false
}

/// Child side: prints one line `SUSPECT <json string>` per flagged program, `SCREENED <n>` at the end.
pub fn prescreen_child(property: &str, tier: &str) -> i32 {
    let programs: Vec<String> = if property == "C11" {
        let (progs, _) = corpus_programs(tier, false);
        jobs_for(&progs, &[8]).into_iter().map(|j| j.code).collect()
    } else {
        match plan(property, tier) {
            Some(p) => {
                let mut seen = std::collections::HashSet::new();
                p.jobs.iter().filter(|j| seen.insert(j.code.clone())).map(|j| j.code.clone()).collect()
            }
            None => return 2,
        }
    };
    let next = std::sync::atomic::AtomicUsize::new(0);
    let done = std::sync::atomic::AtomicUsize::new(0);
    std::thread::scope(|sc| {
        for _ in 0..threads() {
            std::thread::Builder::new()
                .stack_size(1 << 26)
                .spawn_scoped(sc, || loop {
                    let i = next.fetch_add(1, std::sync::atomic::Ordering::SeqCst);
                    if i >= programs.len() {
                        break;
                    }
                    let c11 = property == "C11";
                    if programs[i].len() <= 2000 && ((c11 && std::panic::catch_unwind(|| crate::c11::static_screen(&programs[i])).unwrap_or(true)) || prescreen_one(&programs[i])) {
                        println!("SUSPECT {}", serde_json::to_string(&programs[i]).unwrap());
                        let _ = std::io::stdout().flush();
                    }
                    done.fetch_add(1, std::sync::atomic::Ordering::SeqCst);
                })
                .unwrap();
        }
    });
    println!("SCREENED {}", done.load(std::sync::atomic::Ordering::SeqCst));
    0
}

pub struct Prescreen {
    pub suspects: Vec<String>,
    pub screened: Option<u64>,
    pub seconds: f64,
}

/// Parent side: run the child under a time cap and collect what it printed.
pub fn prescreen(property: &str, tier: &str) -> Prescreen {
    use std::io::{BufRead, BufReader};
    use std::process::{Command, Stdio};
    let t0 = Instant::now();
    let cap = Duration::from_secs(if tier == "thorough" { 150 } else { 45 });
    let mut out = Prescreen { suspects: vec![], screened: None, seconds: 0.0 };
    if std::env::var("SYMX_NO_PRESCREEN").is_ok() || std::env::var("SYMX_ONLY_FAMILY").is_ok() {
        return out;
    }
    let exe = match std::env::current_exe() {
        Ok(e) => e,
        Err(_) => return out,
    };
    let mut child = match Command::new(exe).args(["prescreen", property, "--tier", tier]).stdout(Stdio::piped()).stderr(Stdio::null()).spawn() {
        Ok(c) => c,
        Err(_) => return out,
    };
    let so = child.stdout.take().unwrap();
    let (tx, rx) = std::sync::mpsc::channel::<String>();
    std::thread::spawn(move || {
        for line in BufReader::new(so).lines().map_while(Result::ok) {
            if tx.send(line).is_err() {
                break;
            }
        }
    });
    loop {
        let left = cap.checked_sub(t0.elapsed()).unwrap_or(Duration::from_millis(0));
        match rx.recv_timeout(left.max(Duration::from_millis(1))) {
            Ok(line) => {
                if let Some(js) = line.strip_prefix("SUSPECT ") {
                    if let Ok(p) = serde_json::from_str::<String>(js) {
                        out.suspects.push(p);
                    }
                } else if let Some(n) = line.strip_prefix("SCREENED ") {
                    out.screened = n.trim().parse().ok();
                }
            }
            Err(std::sync::mpsc::RecvTimeoutError::Disconnected) => break,
            Err(std::sync::mpsc::RecvTimeoutError::Timeout) => {
                if t0.elapsed() >= cap {
                    break;
                }
            }
        }
    }
    let _ = child.kill();
    let _ = child.wait();
    out.seconds = t0.elapsed().as_secs_f64();
    out
}

fn prescreen_evidence(p: &Prescreen) -> Value {
    json!({
        "programs_screened": p.screened, "programs_flagged_and_moved_to_the_front": p.suspects.len(), "seconds": (p.seconds * 10.0).round() / 10.0,
        "rule": "scheduling only, decides nothing: each corpus program is run natively (real cell types; irint, bcint and the JIT at two levels, 8 and 64 bits) on two fixed inputs against the reference interpreter; a program showing any difference is moved to the front of the job list of the time-boxed symbolic check (C11 additionally flags programs whose bytecode fails a path-insensitive over-approximation of the temporary clauses); `programs_screened` is null when the child was stopped at its time cap",
        "flagged_samples": p.suspects.iter().take(3).map(|s| report::short(s)).collect::<Vec<_>>(),
    })
}

fn threads() -> usize {
    std::env::var("VERIF_THREADS").ok().and_then(|s| s.parse().ok()).unwrap_or_else(|| std::thread::available_parallelism().map(|n| n.get()).unwrap_or(8))
}

pub struct PartResult {
    pub coverage: Value,
    pub outs: Vec<JobOut>,
    pub skipped: usize,
    pub wall_s: f64,
}

fn run_plan(p: &Plan) -> PartResult {
    let t0 = Instant::now();
    let deadline = Some(Instant::now() + p.time_box);
    let (outs, skipped) = run_jobs(&p.jobs, &*p.specs, &p.cfg, threads(), deadline);
    let mut cov = aggregate(&outs);
    cov["jobs_skipped_by_time_box"] = json!(skipped);
    cov["profile"] = json!(profile_name());
    PartResult { coverage: cov, outs, skipped, wall_s: t0.elapsed().as_secs_f64() }
}

pub fn run_check(property: &str, tier: &str, part: Option<&str>, worker: bool) -> i32 {
    let t0 = Instant::now();
    if property == "C14" {
        return run_c14(tier, part);
    }
    if property == "C11" {
        return run_c11(tier);
    }
    if property == "C15" {
        return run_c15(tier);
    }
    if !worker && (matches!(property, "C06" | "C10") || (property == "C02" && !cfg!(debug_assertions))) {
        return supervise(property, tier, part);
    }
    let tier = if tier == "thorough" { "thorough" } else { "quick" };
    // machinery self-checks first: a broken oracle or normaliser makes everything inconclusive
    if let Err(e) = crate::term::selftest(seed()) {
        println!("INCONCLUSIVE: {}", e);
        return 2;
    }
    let validated = match validate_refbf() {
        Ok(n) => n,
        Err(e) => {
            println!("INCONCLUSIVE: reference interpreter validation failed: {}", e);
            return 2;
        }
    };
    let plan = match plan(property, tier) {
        Some(p) => p,
        None => {
            println!("unknown property {}", property);
            return 2;
        }
    };
    let thorough_tier = tier == "thorough";
    let sel_handle = if property == "C03" && part.is_none() {
        Some(std::thread::Builder::new().stack_size(1 << 28).spawn(move || crate::sel::run_parallel(thorough_tier, if thorough_tier { 900 } else { 150 })).unwrap())
    } else {
        None
    };
    // C03 (c) / C06 (b): the pointer-move sequence of the JIT with symbolic tape geometry
    let probe_handle = if (property == "C03" || property == "C06") && (part.is_none() || cfg!(debug_assertions)) && std::env::var("SYMX_ONLY_FAMILY").is_err() {
        let prop: &'static str = if property == "C03" { "C03" } else { "C06" };
        Some(std::thread::Builder::new().stack_size(1 << 26).spawn(move || crate::probe::run_parallel(thorough_tier, if thorough_tier { 900 } else { 140 }, prop)).unwrap())
    } else {
        None
    };
    // SHAPES: program constants as a solver dimension (C01: plain IR semantics; C02: the
    // at-least-once flag honoured, as the bytecode generator does)
    let shapes_handle = if (property == "C01" || (property == "C02" && cfg!(debug_assertions))) && std::env::var("SYMX_ONLY_FAMILY").is_err() {
        let honour = property == "C02";
        let sd = seed();
        let secs = if thorough_tier { 900 } else { 140 };
        let mut progs: Vec<String> = Vec::new();
        progs.extend(corpus::gen(sd, if thorough_tier { 300 } else { 100 }));
        progs.extend(corpus::gen_struct(sd, if thorough_tier { 600 } else { 150 }));
        progs.extend(corpus::gen_rand(sd, if thorough_tier { 3000 } else { 600 }));
        progs.extend(corpus::gen_geo());
        progs.retain(|p| p.contains('[') && p.len() <= 160);
        // interleave the families
        let mut r = corpus::Rng::new(sd ^ 0x54A9E5);
        for i in (1..progs.len()).rev() {
            let j = r.below(i as u64 + 1) as usize;
            progs.swap(i, j);
        }
        Some(std::thread::Builder::new().stack_size(1 << 28).spawn(move || crate::shapes::run(&progs, sd, secs, 4, honour)).unwrap())
    } else {
        None
    };
    // scheduling pre-screen (decides nothing)
    let mut plan = plan;
    let pre = prescreen(property, tier);
    if !pre.suspects.is_empty() {
        let set: std::collections::HashSet<&String> = pre.suspects.iter().collect();
        let (mut front, back): (Vec<Job>, Vec<Job>) = std::mem::take(&mut plan.jobs).into_iter().partition(|j| set.contains(&j.code));
        front.extend(back);
        plan.jobs = front;
    }
    let res = run_plan(&plan);
    let mut candidates: Vec<Case> = Vec::new();
    for o in &res.outs {
        candidates.extend(o.candidates.iter().cloned());
    }
    let mut shapes_cov = Value::Null;
    if let Some(h) = shapes_handle {
        if let Ok(so) = h.join() {
            shapes_cov = json!({
                "shapes": so.shapes, "symbolic_constants": so.symbolic_constants, "paths": so.paths, "optimiser_runs_inside_the_exploration": so.optimiser_runs,
                "event_log_comparisons": so.comparisons, "paths_truncated": so.truncated, "inconclusive": so.inconclusive.len(),
                "inconclusive_samples": so.inconclusive.iter().take(4).collect::<Vec<_>>(),
                "candidates": so.candidates.len(), "solver_queries": so.stats.queries,
                "rule": "a corpus program is parsed by the real parser; up to 3 of its +/- run lengths / load constants become unconstrained solver variables; the real optimize(level) runs inside the exploration (its case splits fork on the solver); unoptimised vs optimised IR are executed by a small IR interpreter over terms and compared by the solver; counterexamples are printed back as Brainfuck text and replayed natively",
                "samples": so.samples,
            });
            candidates.extend(so.candidates);
        }
    }
    let n_candidates = candidates.len();
    let sum = settle(property, candidates, 60);
    let mut samples: Vec<Value> = Vec::new();
    for o in res.outs.iter().filter(|o| o.paths >= 2).take(6) {
        samples.push(json!({"program": report::short(&o.code), "width": o.width, "paths": o.paths, "solver_queries": o.stats.queries, "events_on_one_path": o.sample}));
    }
    if samples.is_empty() {
        for o in res.outs.iter().take(3) {
            samples.push(json!({"program": report::short(&o.code), "width": o.width, "paths": o.paths}));
        }
    }
    let mut cov = res.coverage.clone();
    let evals = cov["subject_runs"].as_u64().unwrap_or(0).max(1);
    cov["evaluations"] = json!(evals);
    cov["rule"] = json!(plan.rule);
    cov["samples"] = json!(samples);
    cov["states"] = cov["paths"].clone();
    cov["transitions"] = cov["open_decisions"].clone();
    cov["traces_validated_against_impl"] = json!(n_candidates);
    cov["disagreements_checked"] = json!(n_candidates);
    cov["exhaustive"] = json!(false);
    cov["functions_encoded"] = json!(plan.functions);
    cov["corpus"] = plan.corpus_desc.clone();
    cov["bounds"] = json!({
        "max_open_decisions_per_path": plan.cfg.limits.max_decisions,
        "max_paths_per_program": plan.cfg.limits.max_paths,
        "max_cell_operations_per_subject_run": plan.cfg.limits.max_ops,
        "reference_step_cap": plan.cfg.ref_steps,
        "eof_positions_explored": format!("end of input at each of the first {} input requests, or later", plan.cfg.io.eof_forks),
        "solver_timeout_ms": plan.cfg.timeout_ms,
        "time_box_s": plan.time_box.as_secs(),
        "time_cap_per_program_and_width_s": plan.cfg.job_time_cap_s,
        "outside": "inputs driving the canonical run through more open decisions than the cap; programs whose canonical run exceeds the step cap at the given width; programs not in the corpus",
    });
    if !shapes_cov.is_null() {
        cov["shapes_symbolic_constants"] = shapes_cov;
    }
    cov["prescreen"] = prescreen_evidence(&pre);
    cov["candidates"] = json!(n_candidates);
    cov["candidates_not_reproduced_natively"] = json!(sum.not_reproduced.len());
    cov["known_findings_matched"] = json!(sum.known.iter().map(|(k, v)| json!({"id": k, "cases": v.0})).collect::<Vec<_>>());
    cov["refbf_validated_on_repo_expectations"] = json!(validated);
    cov["explanation"] = json!("bounded symbolic execution of the real generic code over SMT terms; the solver decides feasibility of each branch side and equality of every output byte under the path condition");
    let mut assumptions = vec![
        "z3 4.8.12 answers are trusted for unsat (thorough tier re-asks deciding queries of cvc5)".to_string(),
        "the affine term normaliser is sound (differentially self-tested at start-up)".to_string(),
        "program text is enumerated, not symbolic".to_string(),
    ];
    assumptions.extend(plan.assumptions.iter().cloned());
    // C03 (a): selector lemmas
    let mut sel_violations = 0usize;
    let mut probe_unconfirmed = 0usize;
    if let Some(h) = sel_handle {
        let so = h.join().unwrap_or_default();
        let known = report::Known::load();
        let dir = format!("{}/replays", report::verif_root());
        let mut known_hits: std::collections::BTreeMap<String, (usize, String)> = Default::default();
        let mut unconfirmed = 0usize;
        let mut classes = std::collections::BTreeSet::new();
        for f in &so.failing {
            if f["native"].is_null() {
                unconfirmed += 1;
                continue;
            }
            let form = f["form"].as_str().unwrap_or("").to_string();
            let mut matched = None;
            for e in &known.entries {
                if e["property"].as_str() == Some("C03") && e["form_contains"].as_str().map_or(false, |s| form.contains(s)) {
                    matched = Some(e["id"].as_str().unwrap_or("?").to_string());
                }
            }
            if let Some(id) = matched {
                known_hits.entry(id).or_insert((0, format!("selector form `{}` at {} bits: {}", form, f["width"], f["why"].as_str().unwrap_or("")))).0 += 1;
                continue;
            }
            // one VIOLATION per (operator, operand kinds) class
            let class = format!("{} {}", f["op"].as_str().unwrap_or(""), form.split(',').map(|x| x.trim().chars().filter(|c| !c.is_ascii_digit() && *c != '-').collect::<String>()).collect::<Vec<_>>().join(","));
            if !classes.insert(class) || sel_violations >= 10 {
                continue;
            }
            let path = format!("{}/C03-sel-{}.json", dir, sel_violations);
            let _ = std::fs::create_dir_all(&dir);
            let _ = std::fs::write(&path, serde_json::to_string_pretty(f).unwrap());
            println!("VIOLATION property=C03 replay={}", path);
            println!("  selector lemma: form `{}` at {} bits: {} ; {}", form, f["width"], f["why"].as_str().unwrap_or(""), f["native"].as_str().unwrap_or(""));
            sel_violations += 1;
        }
        for (id, (n, what)) in &known_hits {
            println!("KNOWN-FINDING: property=C03 {} ({} form(s) this run; id {})", what, n, id);
        }
        cov["selector_lemmas"] = json!({
            "forms_checked": so.forms, "hold": so.holds, "no_selector_arm_(unimplemented!)": so.unsupported,
            "failing": so.failing.len(), "failing_confirmed_natively_(jit_vs_bytecode_interpreter_on_the_same_bytecode)": so.failing_confirmed_natively,
            "failing_not_confirmed": unconfirmed, "undecided": so.undecided.len(),
            "solver_queries": so.stats.queries,
            "rule": "operand kinds {tape cell, callee-saved register temp, caller-saved register temp, stack temp, immediate} x aliasing x immediate class {0, +-1, 127, 128, -128, -129, i32 bounds +-1, u32 bounds +-1, i64 bounds} x live mask {exact, all live}; every form at 64 bits, every third form at 8/16/32 bits in the quick tier; plus, at every width and in every tier, the displacement-boundary family: tape operands at byte displacement 128-size, 128, 128+size and their negatives in 36 operand-kind combinations x live mask, and stack temporaries 15, 16, 17 ([rsp+120], [rsp+128], [rsp+136]), with the lemma program's window widened to the operand and every cell of it symbolic",
            "samples": so.failing.iter().take(3).collect::<Vec<_>>(),
        });
        cov["evaluations"] = json!(cov["evaluations"].as_u64().unwrap_or(0) + so.forms);
    }
    if let Some(h) = probe_handle {
        let po = h.join().unwrap_or_default();
        let dir = format!("{}/replays", report::verif_root());
        let mut unconfirmed = 0usize;
        let mut seen = std::collections::BTreeSet::new();
        let mut probe_known: std::collections::BTreeMap<String, (usize, String, String)> = Default::default();
        for f in &po.failing {
            // a recorded finding, identified by its role: a byte displacement beyond 32 bits
            let mut matched = None;
            for e in &report::Known::load().entries {
                if e["property"].as_str() == Some(property) && e["probe_far_displacement"].as_bool() == Some(true) && f["far"].as_bool() == Some(true) {
                    matched = Some(e["id"].as_str().unwrap_or("?").to_string());
                }
            }
            if let Some(id) = matched {
                let n = probe_known.entry(id).or_insert((0usize, f["what"].as_str().unwrap_or("").to_string(), f["native"].as_str().unwrap_or("").to_string()));
                n.0 += 1;
                continue;
            }
            if f["native"].is_null() {
                unconfirmed += 1;
                println!("INCONCLUSIVE: pointer-move lemma fails in the model but was not reproduced natively: {} ({})", f["what"].as_str().unwrap_or(""), f["model"].as_str().unwrap_or(""));
                continue;
            }
            // one VIOLATION per (width, lemma)
            if !seen.insert(format!("{} {}", f["width"], f["lemma"])) || sel_violations >= 10 {
                continue;
            }
            let path = format!("{}/{}-probe-{}.json", dir, property, sel_violations);
            let _ = std::fs::create_dir_all(&dir);
            let _ = std::fs::write(&path, serde_json::to_string_pretty(f).unwrap());
            println!("VIOLATION property={} replay={}", property, path);
            println!("  pointer-move lemma: {} ; {}", f["what"].as_str().unwrap_or(""), f["native"].as_str().unwrap_or(""));
            sel_violations += 1;
        }
        probe_unconfirmed = unconfirmed;
        for (id, (n, what, native)) in &probe_known {
            println!("KNOWN-FINDING: property={} the baseline JIT encodes byte displacements in 32 bits: {} ; {} ({} lemma(s) this run; id {})", property, what, native, n, id);
        }
        cov["pointer_move_lemmas_symbolic_geometry"] = json!({
            "configurations_checked": po.configurations, "configurations_total": po.total_configurations,
            "lemmas": po.lemmas, "discharged_unsat": po.discharged, "undecided": po.undecided.len(),
            "failing": po.failing.len(), "failing_confirmed_natively": po.failing_confirmed_natively, "failing_not_confirmed": unconfirmed,
            "failing_matching_a_known_finding": probe_known.values().map(|x| x.0).sum::<usize>(),
            "solver_queries": po.stats.queries, "solver_seconds": po.stats.seconds,
            "undecided_samples": po.undecided.iter().take(3).collect::<Vec<_>>(),
            "rule": "machine code of the one-instruction bytecode program [Mov(shift)] (hook verif_from_bytecode), run in the x86 model up to the epilogue with buffer address, size, tape pointer and recorded offset as 64-bit solver variables; preconditions: size in [1, 2^60), buffer < 2^62, pointer cell-aligned, the whole access window [min, max] inside the block; hpbf_context_extend replaced by the contract of make_accessible(0, 1) (fresh block below 2^62 that keeps the old cells at added_below and contains the re-based offset; established for every geometry by the MIR-level lemmas of C09). Decided: fast path => moved pointer is ptr + shift*w, probed cell and the whole window inside the block; slow path => extend is asked for [0, 1), the recorded offset is the index of the probed cell, the re-based pointer denotes the moved cell, the whole window lies inside the new block",
            "shifts": "1, -1, -3, 7, 2, -8, 1000, -4097", "windows": "[-3,5], [0,0], [-1,0], [0,17]", "widths": "8, 16, 32, 64",
            "samples": po.failing.iter().take(3).collect::<Vec<_>>(),
        });
        cov["evaluations"] = json!(cov["evaluations"].as_u64().unwrap_or(0) + po.lemmas);
    }
    let inconclusive_total = cov["inconclusive"].as_u64().unwrap_or(0) as usize + sum.not_reproduced.len() + sum.replay_errors.len() + probe_unconfirmed;
    let ev = json!({
        "property_id": property,
        "tier": tier,
        "seed": seed(),
        "level": plan.level,
        "coverage": cov,
        "assumptions": assumptions,
        "wall_s": t0.elapsed().as_secs_f64(),
        "violations": sum.violations.len() + sel_violations,
    });
    if let Some(p) = part {
        // partial result for an orchestrating process
        std::fs::write(p, serde_json::to_string(&ev).unwrap()).expect("write part");
    } else {
        write_evidence(property, &ev);
    }
    for (c, s) in sum.not_reproduced.iter().take(5) {
        println!("INCONCLUSIVE: candidate not reproduced natively ({} L{} w{} {:?}): {} [{}]", c.backend.name(), c.level, c.width, report::short(&c.program), s, c.note);
    }
    for s in sum.replay_errors.iter().take(5) {
        println!("INCONCLUSIVE: replay error: {}", s);
    }
    println!(
        "{} {} [{}]: jobs={} paths={} subject_runs={} queries={} inconclusive={} skipped_by_time_box={} violations={} known={} wall={:.1}s",
        property,
        tier,
        profile_name(),
        res.outs.len(),
        ev["coverage"]["paths"],
        ev["coverage"]["subject_runs"],
        ev["coverage"]["solver_queries"],
        inconclusive_total,
        res.skipped,
        sum.violations.len(),
        sum.known.len(),
        res.wall_s
    );
    if !sum.violations.is_empty() || sel_violations > 0 {
        1
    } else if !sum.not_reproduced.is_empty() || probe_unconfirmed > 0 {
        2
    } else {
        0
    }
}

pub fn run_one(property: &str, code: &str, width: u32, tier: &str) -> i32 {
    let plan = match plan(property, tier) {
        Some(p) => p,
        None => return 2,
    };
    let job = Job { tag: "one".into(), code: code.to_string(), width, ok0: false, guard: 0 };
    let specs = (plan.specs)(&job);
    let out = crate::checks::run_job(&job, &specs, &plan.cfg);
    println!("{:#?}", JobOut { candidates: vec![], ..out.clone() });
    for c in &out.candidates {
        println!("candidate: {} L{} {:?} input={:?} note={}", c.backend.name(), c.level, c.mode, c.input, c.note);
    }
    let sum = settle(property, out.candidates.clone(), 20);
    if sum.violations.is_empty() { 0 } else { 1 }
}

/// Development aid: run generated programs natively on a few inputs against refbf and print
/// the failing ones (used to design the corpus; never used as a check).
pub fn hunt(n: usize) {
    let sd = seed();
    let mut progs = corpus::gen_struct(sd, n);
    progs.extend(corpus::gen(sd, n / 4));
    let mut rng = corpus::Rng::new(sd ^ 77);
    let mut found = 0;
    'prog: for p in progs {
        if std::env::var("HUNT_VERBOSE").is_ok() {
            eprintln!("P {}", p);
        }
        for trial in 0..6 {
            let input: Vec<u8> = (0..8).map(|_| if trial == 0 { 0 } else if trial < 3 { (rng.below(4)) as u8 } else { rng.next() as u8 }).collect();
            for &w in &[8u32, 64] {
                for backend in [Backend::Ir, Backend::Bc, Backend::Jit] {
                    for level in [1u32, 2, 3] {
                        let case = Case { property: "hunt".into(), backend, width: w, level, mode: Mode::Full, program: p.clone(), input: input.clone(), fail_read_at: None, fail_write_at: None, out_ok0: false, no_input: false, no_output: false, note: String::new(), profile: String::new(), guard: 0 };
                        let r = native::run_ref_native(&case, 300_000);
                        if r.status != RefStatus::Halted {
                            continue;
                        }
                        // only run subjects on cheap programs (no timeouts in this aid)
                        if r.steps > 20_000 {
                            continue;
                        }
                        let s = std::panic::catch_unwind(|| native::run_native(&case));
                        match s {
                            Ok(s) => {
                                if s.events != r.events {
                                    println!("DIFF {} L{} w{} input={:?} program={}", backend.name(), level, w, input, p);
                                    found += 1;
                                    continue 'prog;
                                }
                            }
                            Err(_) => {
                                println!("PANIC {} L{} w{} input={:?} program={}", backend.name(), level, w, input, p);
                                found += 1;
                                continue 'prog;
                            }
                        }
                        if found > 40 {
                            return;
                        }
                    }
                }
            }
        }
    }
    println!("hunt done, {} findings", found);
}

fn still_fails(plan: &Plan, code: &str, width: u32) -> bool {
    if !refbf::balanced(code) {
        return false;
    }
    let job = Job { tag: "min".into(), code: code.to_string(), width, ok0: false, guard: 0 };
    let specs = (plan.specs)(&job);
    let out = crate::checks::run_job(&job, &specs, &plan.cfg);
    for (i, c) in out.candidates.iter().enumerate().take(3) {
        let path = format!("/tmp/symx-min-{}-{}.json", std::process::id(), i);
        let _ = std::fs::write(&path, c.to_json().to_string());
        let r = report::replay_case(c, &path, Duration::from_secs(3));
        let _ = std::fs::remove_file(&path);
        if let report::Replay::Reproduced(_) = r {
            return true;
        }
    }
    false
}

pub fn minimize(property: &str, code: &str, width: u32, tier: &str) {
    let plan = match plan(property, tier) {
        Some(p) => p,
        None => return,
    };
    let mut cur = code.to_string();
    if !still_fails(&plan, &cur, width) {
        println!("program does not fail");
        return;
    }
    loop {
        let mut progress = false;
        // chunk deletions of decreasing size
        let mut size = (cur.len() / 2).max(1);
        while size >= 1 {
            let mut i = 0;
            while i + size <= cur.len() {
                let mut cand = cur.clone();
                cand.replace_range(i..i + size, "");
                if still_fails(&plan, &cand, width) {
                    cur = cand;
                    progress = true;
                    println!("  -> {}", cur);
                } else {
                    i += 1;
                }
            }
            if size == 1 {
                break;
            }
            size /= 2;
        }
        // matched bracket pair removal (keep the body)
        let bytes: Vec<u8> = cur.bytes().collect();
        let mut st = vec![];
        let mut pairs = vec![];
        for (i, &b) in bytes.iter().enumerate() {
            if b == b'[' {
                st.push(i)
            } else if b == b']' {
                if let Some(j) = st.pop() {
                    pairs.push((j, i));
                }
            }
        }
        for (a, b) in pairs {
            if b >= cur.len() {
                continue;
            }
            let mut cand = cur.clone();
            cand.replace_range(b..b + 1, "");
            cand.replace_range(a..a + 1, "");
            if still_fails(&plan, &cand, width) {
                cur = cand;
                progress = true;
                println!("  -> {}", cur);
                break;
            }
        }
        if !progress {
            break;
        }
    }
    println!("MINIMAL {}", cur);
}

/// Run a guard-allocator check in a child process: a guard-page fault kills the child
/// (exit 77 with the case it was running); the fault is then replayed natively under the
/// same allocator before it is reported.
fn supervise(property: &str, tier: &str, part: Option<&str>) -> i32 {
    use std::io::{BufRead, BufReader};
    use std::process::{Command, Stdio};
    let exe = std::env::current_exe().expect("current_exe");
    let mut args: Vec<String> = ["check", property, "--tier", tier, "--worker"].iter().map(|s| s.to_string()).collect();
    if let Some(p) = part {
        args.push("--part".into());
        args.push(p.to_string());
    }
    let mut child = Command::new(exe).args(&args).stdout(Stdio::piped()).spawn().expect("spawn worker");
    let out = child.stdout.take().unwrap();
    let mut fault: Option<String> = None;
    for line in BufReader::new(out).lines().map_while(Result::ok) {
        if let Some(rest) = line.strip_prefix("GUARD-FAULT ") {
            fault = Some(rest.to_string());
        } else {
            println!("{}", line);
        }
    }
    let st = child.wait().expect("wait");
    let code = st.code();
    if code == Some(77) || fault.is_some() {
        let js = fault.unwrap_or_default();
        let v: Value = serde_json::from_str(&js).unwrap_or(Value::Null);
        match Case::from_json(&v) {
            Some(case) => {
                let sum = settle(property, vec![case], 5);
                // the worker stopped before it could write its evidence: record what is known
                let ev = json!({
                    "property_id": property, "tier": if tier == "thorough" { "thorough" } else { "quick" }, "seed": seed(), "level": "model_checking",
                    "coverage": {
                        "evaluations": 1, "distinct_nontrivial": 1, "states": 1, "transitions": 0, "paths": 1, "jobs": 1, "profile": profile_name(),
                        "rule": "the worker process stopped on a guard-page fault (an access outside the owned allocation during the symbolic run); this record holds only that case, which was replayed natively",
                        "samples": [v.clone()], "traces_validated_against_impl": 1, "disagreements_checked": 1, "exhaustive": false,
                        "functions_encoded": ["see the complete evidence of a run without a fault"], "explanation": "guard-page fault during symbolic execution",
                    },
                    "assumptions": ["partial record: the run was cut short by the fault"],
                    "wall_s": 0.0, "violations": sum.violations.len(),
                });
                match part {
                    Some(p) if !std::path::Path::new(p).exists() => {
                        let _ = std::fs::write(p, serde_json::to_string(&ev).unwrap());
                    }
                    None => write_evidence(property, &ev),
                    _ => {}
                }
                if !sum.violations.is_empty() {
                    return 1;
                }
                println!("INCONCLUSIVE: a guard-page fault during symbolic execution did not reproduce natively");
                return 2;
            }
            None => {
                println!("INCONCLUSIVE: worker died with a guard fault but its case could not be read: {}", js);
                return 2;
            }
        }
    }
    match code {
        Some(c) => c,
        None => {
            println!("INCONCLUSIVE: worker killed by a signal outside the guard arena");
            2
        }
    }
}

/// C14, symx part (16/32/64 bits).  Writes a partial evidence file merged with the Kani part.
fn run_c14(tier: &str, part: Option<&str>) -> i32 {
    let t0 = Instant::now();
    let thorough = tier == "thorough";
    let (out, desc) = crate::c14::run(seed(), thorough);
    for v in out.violations.iter().take(10) {
        let dir = format!("{}/replays", report::verif_root());
        let _ = std::fs::create_dir_all(&dir);
        let path = format!("{}/C14-{}.txt", dir, out.violations.iter().position(|x| x == v).unwrap_or(0));
        let _ = std::fs::write(&path, format!("C14 counterexample (terms extracted from the real CellType default methods): {}\n", v));
        println!("VIOLATION property=C14 replay={}", path);
        println!("  {}", v);
    }
    for s in out.inconclusive.iter().take(8) {
        println!("INCONCLUSIVE: {}", s);
    }
    let ev = json!({
        "property_id": "C14", "tier": tier, "seed": seed(), "level": "model_checking",
        "coverage": {
            "evaluations": out.obligations.max(1), "distinct_nontrivial": out.discharged.max(2),
            "rule": "one case = one proof obligation on one path of the real method (division: x*d==n, minimality, none-iff-no-solution; inverse; power recurrence); all are non-trivial (each is a solver query or a constant-folded identity of the real code's output)",
            "samples": [desc.clone()],
            "obligations": out.obligations, "discharged": out.discharged, "paths": out.paths,
            "inconclusive": out.inconclusive.len(),
            "obligations_undecided_within_the_solver_cap": out.undecided,
            "explorations_skipped_by_time_box": out.skipped_by_time_box,
            "obligation_classes": out.classes.iter().map(|(k, v)| json!({"class": k, "discharged": v.0, "unknown": v.1, "seconds": (v.2 * 100.0).round() / 100.0})).collect::<Vec<_>>(),
            "solver_queries": out.stats.queries, "solver_seconds": (out.stats.seconds * 1000.0).round() / 1000.0,
            "functions_encoded": ["<SymCell<W> as hpbf::CellType>::{wrapping_div, wrapping_inv, wrapping_pow, is_odd} (the trait's default bodies) for W in {16,32,64}"],
            "bounds": desc,
            "outside": "the general-d inverse/division identity at 32 and 64 bits (only the stated odd parts x every shift class); power with symbolic exponent",
        },
        "assumptions": ["z3 / cvc5 --solve-bv-as-int=sum answers", "the affine term normaliser (self-tested)"],
        "wall_s": t0.elapsed().as_secs_f64(), "violations": out.violations.len(),
    });
    if let Some(p) = part {
        std::fs::write(p, serde_json::to_string(&ev).unwrap()).expect("write part");
    } else {
        write_evidence("C14", &ev);
    }
    println!("C14 {} [symx terms]: obligations={} discharged={} paths={} queries={} inconclusive={} violations={} wall={:.1}s", tier, out.obligations, out.discharged, out.paths, out.stats.queries, out.inconclusive.len(), out.violations.len(), t0.elapsed().as_secs_f64());
    if !out.violations.is_empty() { 1 } else if !out.inconclusive.is_empty() { 2 } else { 0 }
}

fn run_c11(tier: &str) -> i32 {
    let t0 = Instant::now();
    let thorough = tier == "thorough";
    if let Err(e) = crate::term::selftest(seed()) {
        println!("INCONCLUSIVE: {}", e);
        return 2;
    }
    if let Err(e) = validate_refbf() {
        println!("INCONCLUSIVE: reference interpreter validation failed: {}", e);
        return 2;
    }
    let (progs, desc) = corpus_programs(tier, false);
    let ws = widths(tier);
    let jobs0 = jobs_for(&progs, &ws);
    let mut jobs: Vec<(String, u32)> = jobs0.iter().map(|j| (j.code.clone(), j.width)).collect();
    // scheduling pre-screen (decides nothing): a contract violation of the generated bytecode usually also
    // shows as a behavioural difference of the interpreter or the JIT on some input
    let pre = prescreen("C11", tier);
    if !pre.suspects.is_empty() {
        let set: std::collections::HashSet<&String> = pre.suspects.iter().collect();
        let (mut front, back): (Vec<(String, u32)>, Vec<(String, u32)>) = std::mem::take(&mut jobs).into_iter().partition(|j| set.contains(&j.0));
        front.extend(back);
        jobs = front;
    }
    let cfg = crate::c11::Cfg {
        limits: if thorough { Limits::thorough() } else { Limits::quick() },
        ref_steps: if thorough { 200_000 } else { 20_000 },
        timeout_ms: if thorough { 60_000 } else { 4_000 },
        eof_forks: if thorough { 4 } else { 2 },
        job_cap: Duration::from_secs(if thorough { 20 } else { 3 }),
        levels: vec![0, 1, 2, 3],
    };
    let time_box = Duration::from_secs(if thorough { 1200 } else { 170 });
    let (out, skipped) = crate::c11::run_all(&jobs, &cfg, threads(), Instant::now() + time_box);
    // settle findings: replay concretely, filter known findings
    let known = report::Known::load();
    let dir = format!("{}/replays", report::verif_root());
    let _ = std::fs::create_dir_all(&dir);
    let mut violations = 0usize;
    let mut known_hits: std::collections::BTreeMap<String, (usize, String)> = Default::default();
    let mut not_repro = 0usize;
    let mut seen = std::collections::HashSet::new();
    for f in out.findings.iter() {
        let key = format!("{}|{}|{}|{}", f.setting, f.level, f.program, f.what);
        if !seen.insert(key) || violations >= 10 {
            continue;
        }
        let js = f.to_json();
        let path = format!("{}/C11-{:016x}.json", dir, {
            let mut h: u64 = 0xcbf29ce484222325;
            for b in js.to_string().bytes() {
                h ^= b as u64;
                h = h.wrapping_mul(0x100000001b3);
            }
            h
        });
        let _ = std::fs::write(&path, serde_json::to_string_pretty(&js).unwrap());
        let exe = std::env::current_exe().unwrap();
        let st = std::process::Command::new(exe).arg("replay").arg(&path).output();
        let reproduced = matches!(&st, Ok(o) if o.status.code() == Some(1));
        if !reproduced {
            not_repro += 1;
            let _ = std::fs::remove_file(&path);
            continue;
        }
        let mut matched = None;
        for e in &known.entries {
            if e["property"].as_str() == Some("C11") && e["setting_contains"].as_str().map_or(true, |s| f.setting.contains(s)) && e["what_contains"].as_str().map_or(true, |s| f.what.contains(s)) && e["program"].as_str().map_or(true, |s| s == f.program) {
                matched = Some(e["id"].as_str().unwrap_or("?").to_string());
                break;
            }
        }
        if let Some(id) = matched {
            let e = known_hits.entry(id).or_insert((0, format!("[{}] L{} w{} program {:?}: instruction {}: {}", f.setting, f.level, f.width, report::short(&f.program), f.at, f.what)));
            e.0 += 1;
            let _ = std::fs::remove_file(&path);
        } else {
            println!("VIOLATION property=C11 replay={}", path);
            println!("  [{}] L{} w{} program={:?} input={:?}: instruction {}: {}", f.setting, f.level, f.width, report::short(&f.program), f.input, f.at, f.what);
            violations += 1;
        }
    }
    for (id, (n, what)) in &known_hits {
        println!("KNOWN-FINDING: property=C11 {} ({} case(s) this run; id {})", what, n, id);
    }
    for s in out.inconclusive.iter().take(5) {
        println!("INCONCLUSIVE: {}", s);
    }
    let ev = json!({
        "property_id": "C11", "tier": tier, "seed": seed(), "level": "model_checking",
        "coverage": {
            "evaluations": out.validator_runs.max(1), "distinct_nontrivial": out.nontrivial.max(2).min(out.jobs.max(2)),
            "rule": "one case = (program, width): the bytecode of levels 0..3 in both generator settings, obtained through the executors' hook accessors, is checked structurally and executed by the symbolic validator on every explored path; non-trivial = the exploration forked or needed >= 1 solver query",
            "samples": [out.sample.clone().unwrap_or(json!({}))],
            "states": out.paths.max(1), "transitions": out.decisions.max(1), "traces_validated_against_impl": out.cross_validated,
            "jobs": out.jobs, "jobs_skipped_by_time_box": skipped, "bytecode_programs": out.bytecode_programs, "bytecode_instructions": out.instructions,
            "structural_checks": out.structural_checks, "validator_runs": out.validator_runs,
            "validator_runs_cross_validated_against_reference_events": out.cross_validated,
            "paths": out.paths, "paths_truncated": out.truncated, "inconclusive": out.inconclusive.len(),
            "inconclusive_samples": out.inconclusive.iter().take(5).collect::<Vec<_>>(),
            "findings": out.findings.len(), "findings_not_reproduced": not_repro,
            "known_findings_matched": known_hits.iter().map(|(k, v)| json!({"id": k, "cases": v.0})).collect::<Vec<_>>(),
            "solver_queries": out.stats.queries, "solver_seconds": (out.stats.seconds * 1000.0).round() / 1000.0,
            "functions_encoded": ["hpbf::bc::CodeGen::translate(_, 2, true) as held by BcInterpreter (hook verif_bytecode)", "hpbf::bc::CodeGen::translate(_, 11, false) as held by BaseJitCompiler (hook verif_bytecode)", "semantics of bc::Instr written down in symx::bcval and cross-validated against the reference events on every halted path"],
            "prescreen": prescreen_evidence(&pre),
            "corpus": desc,
            "bounds": {"levels": "0..3", "settings": "(2 registers, fusion) and (11 registers, no fusion)", "max_open_decisions_per_path": cfg.limits.max_decisions, "max_paths_per_program": cfg.limits.max_paths, "time_cap_per_program_and_width_s": cfg.job_cap.as_secs(),
                       "outside": "paths beyond the decision/path caps; programs not in the corpus; constants are concrete (SHAPES mode not built)"},
        },
        "assumptions": ["paths are those of real executions (zero-initialised tape, symbolic input); a register temporary counts as clobbered after a non-branch instruction unless it is declared live or is that instruction's destination", "z3 unsat answers for path feasibility"],
        "wall_s": t0.elapsed().as_secs_f64(), "violations": violations,
    });
    write_evidence("C11", &ev);
    println!("C11 {}: jobs={} bytecode_programs={} paths={} validator_runs={} cross_validated={} queries={} findings={} violations={} known={} inconclusive={} skipped={} wall={:.1}s", tier, out.jobs, out.bytecode_programs, out.paths, out.validator_runs, out.cross_validated, out.stats.queries, out.findings.len(), violations, known_hits.len(), out.inconclusive.len(), skipped, t0.elapsed().as_secs_f64());
    if violations > 0 { 1 } else if not_repro > 0 { 2 } else { 0 }
}

fn run_c15(tier: &str) -> i32 {
    let t0 = Instant::now();
    let thorough = tier == "thorough";
    if let Err(e) = crate::term::selftest(seed()) {
        println!("INCONCLUSIVE: {}", e);
        return 2;
    }
    let (out, desc) = crate::c15::run(seed(), thorough);
    let dir = format!("{}/replays", report::verif_root());
    let _ = std::fs::create_dir_all(&dir);
    let known = report::Known::load();
    let mut violations = 0;
    let mut known_hits: std::collections::BTreeMap<String, (usize, String)> = Default::default();
    for (i, v) in out.violations.iter().enumerate() {
        let mut matched = None;
        for e in &known.entries {
            if e["property"].as_str() == Some("C15") && e["what_contains"].as_str().map_or(true, |s| v.contains(s)) {
                matched = Some(e["id"].as_str().unwrap_or("?").to_string());
            }
        }
        if let Some(id) = matched {
            known_hits.entry(id).or_insert((0, v.clone())).0 += 1;
            continue;
        }
        if violations >= 10 {
            continue;
        }
        let path = format!("{}/C15-{}.txt", dir, i);
        let _ = std::fs::write(&path, format!("C15 counterexample (the real ir::Expr API over symbolic coefficients): {}\nreplay: build the shape with the stated coefficient/variable values through Expr::val/var/add/mul/neg and compare evaluate() with direct arithmetic\n", v));
        println!("VIOLATION property=C15 replay={}", path);
        println!("  {}", v);
        violations += 1;
    }
    for (id, (n, what)) in &known_hits {
        println!("KNOWN-FINDING: property=C15 {} ({} case(s) this run; id {})", what, n, id);
    }
    for s in out.inconclusive.iter().take(5) {
        println!("INCONCLUSIVE: {}", s);
    }
    let ev = json!({
        "property_id": "C15", "tier": tier, "seed": seed(), "level": "model_checking",
        "coverage": {
            "evaluations": out.obligations.max(1), "distinct_nontrivial": out.discharged.max(2),
            "rule": "one case = one proof obligation (an equality between the value of an Expr API result and direct arithmetic on the operand values) on one path of the implementation's own case analysis for one expression shape; every obligation is decided by the solver or by hash-consed term identity",
            "samples": out.samples, "states": out.paths.max(1), "transitions": out.obligations.max(1), "traces_validated_against_impl": out.violations.len(),
            "shapes": out.shapes, "paths": out.paths, "obligations": out.obligations, "discharged": out.discharged,
            "obligations_undecided_within_the_solver_cap": out.undecided,
            "obligation_classes": out.classes.iter().map(|(k, v)| json!({"class": k, "discharged": v.0, "undecided": v.1})).collect::<Vec<_>>(),
            "solver_queries": out.stats.queries, "solver_seconds": (out.stats.seconds * 1000.0).round() / 1000.0,
            "functions_encoded": ["hpbf::ir::Expr::<SymCell<W>>::{val, var, add, mul, neg, half, normalize, symb_evaluate, mul_parts, evaluate, inc_of, prod_inc_of, const_inc_of, prod_of, constant, constant_part, identity, codegen}"],
            "bounds": desc,
            "outside": "expression shapes deeper than 3 or with more than 3 variables; split_along (takes crate-private map types); undecided obligations at 16/64 bits are listed and not claimed",
        },
        "assumptions": ["z3 / cvc5 answers", "the affine term normaliser (self-tested)"],
        "wall_s": t0.elapsed().as_secs_f64(), "violations": violations,
    });
    write_evidence("C15", &ev);
    println!("C15 {}: shapes={} paths={} obligations={} discharged={} undecided={} queries={} violations={} known={} inconclusive={} wall={:.1}s", tier, out.shapes, out.paths, out.obligations, out.discharged, out.undecided, out.stats.queries, violations, known_hits.len(), out.inconclusive.len(), t0.elapsed().as_secs_f64());
    if violations > 0 { 1 } else { 0 }
}

pub fn corpus_for_dev() -> Vec<String> {
    corpus_programs("quick", false).0.into_iter().map(|(_, p)| p).collect()
}

pub fn corpus_tagged() -> Vec<(String, String)> {
    corpus_programs("quick", false).0
}

fn memreplay_typed<C: hpbf::CellType>(size: i64, offset: i64, start: i64, end: i64) -> Option<String> {
    use hpbf::runtime::Memory;
    let mut mem = Memory::<C>::new();
    if size > 0 {
        mem.make_accessible(0, size as isize);
    }
    // distinct contents
    for i in 0..size {
        mem.write(i as isize, C::from_u64((i as u64).wrapping_mul(2654435761).wrapping_add(1)));
    }
    mem.mov(offset as isize);
    let before: Vec<u64> = (0..size).map(|i| mem.read((i - offset) as isize).into_u64()).collect();
    mem.make_accessible(start as isize, end as isize);
    for i in start..end {
        if !mem.check(i as isize) {
            return Some(format!("after make_accessible({}, {}) offset {} is not accessible", start, end, i));
        }
    }
    for i in 0..size {
        let now = mem.read((i - offset) as isize).into_u64();
        if now != before[i as usize] {
            return Some(format!("logical cell {} changed from {} to {} across the reallocation", i, before[i as usize], now));
        }
    }
    None
}

/// Native replay of the query lemmas (L4): `check(i)`, `check_ptr(current_ptr() + k)` and
/// `set_current_ptr(current_ptr() + k)` against the logical-array reading, from the given geometry.
fn memreplay_query<C: hpbf::CellType>(size: i64, offset: i64, i: i64, ptr_mode: bool) -> Option<String> {
    use hpbf::runtime::Memory;
    let mut mem = Memory::<C>::new();
    if size > 0 {
        mem.make_accessible(0, size as isize);
    }
    let content = |j: i64| C::from_u64((j as u64).wrapping_mul(2654435761).wrapping_add(1));
    for j in 0..size {
        mem.write(j as isize, content(j));
    }
    mem.mov(offset as isize);
    let inside = offset + i >= 0 && offset + i < size;
    if !ptr_mode {
        let got = mem.check(i as isize);
        if got != inside {
            return Some(format!("check({}) returns {} although logical cell {} is {} the block of {} cells", i, got, offset + i, if inside { "inside" } else { "outside" }, size));
        }
        return None;
    }
    let p = mem.current_ptr().wrapping_offset(i as isize);
    let got = mem.check_ptr(p);
    if got != inside {
        return Some(format!("check_ptr(current_ptr() + {}) returns {} although logical cell {} is {} the block of {} cells", i, got, offset + i, if inside { "inside" } else { "outside" }, size));
    }
    mem.set_current_ptr(p);
    let want = if inside { content(offset + i).into_u64() } else { 0 };
    let now = mem.read(0).into_u64();
    if now != want {
        return Some(format!("after set_current_ptr(current_ptr() + {}) the current cell reads {} instead of {}", i, now, want));
    }
    None
}

pub fn memreplay_mode(cell_bytes: u32, size: i64, offset: i64, i: i64, ptr_mode: bool) -> i32 {
    if !(0..=1 << 20).contains(&size) || offset.abs() > 1 << 20 || i.abs() > 1 << 20 {
        println!("geometry too large to replay natively");
        return 3;
    }
    let r = std::panic::catch_unwind(|| match cell_bytes {
        1 => memreplay_query::<u8>(size, offset, i, ptr_mode),
        2 => memreplay_query::<u16>(size, offset, i, ptr_mode),
        4 => memreplay_query::<u32>(size, offset, i, ptr_mode),
        _ => memreplay_query::<u64>(size, offset, i, ptr_mode),
    });
    match r {
        Ok(Some(s)) => {
            println!("REPRODUCED: Memory<u{}> with size {} and pointer at {}: {}", cell_bytes * 8, size, offset, s);
            1
        }
        Ok(None) => {
            println!("NOT-REPRODUCED: the native Memory behaves as specified on this geometry");
            0
        }
        Err(_) => {
            println!("REPRODUCED: the native call panicked on this geometry");
            1
        }
    }
}

pub fn memreplay(cell_bytes: u32, size: i64, offset: i64, start: i64, end: i64) -> i32 {
    if !(0..=1 << 20).contains(&size) || offset.abs() > 1 << 20 || start.abs() > 1 << 20 || end.abs() > 1 << 20 || start >= end {
        println!("geometry too large to replay natively");
        return 3;
    }
    let r = std::panic::catch_unwind(|| match cell_bytes {
        1 => memreplay_typed::<u8>(size, offset, start, end),
        2 => memreplay_typed::<u16>(size, offset, start, end),
        4 => memreplay_typed::<u32>(size, offset, start, end),
        _ => memreplay_typed::<u64>(size, offset, start, end),
    });
    match r {
        Ok(Some(s)) => {
            println!("REPRODUCED: Memory<u{}> with size {} and pointer at {}: {}", cell_bytes * 8, size, offset, s);
            1
        }
        Ok(None) => {
            println!("NOT-REPRODUCED: the native Memory behaves as specified on this geometry");
            0
        }
        Err(_) => {
            println!("REPRODUCED: the native call panicked on this geometry");
            1
        }
    }
}
