//! Hash-consed bit-vector term DAG with an affine normal form.
//!
//! Handle 0 is the constant zero of *every* width (so that zero-initialised
//! memory holding handles is a valid all-zero tape).  All other nodes carry
//! their width.  Sums are kept in the normal form  `c + sum coef_i * atom_i`
//! (commutative-ring axioms of Z/2^w only); everything else is an opaque atom.
//! The normaliser is differentially self-tested against direct evaluation at
//! start-up (`selftest`).

use std::collections::HashMap;

pub type T = u32;

#[derive(Clone, PartialEq, Eq, Hash, Debug)]
pub enum Node {
    Zero,
    Const(u64),
    /// 8-bit input byte number k, zero-extended to the node width.
    Input(u32),
    /// Free variable of the node width.
    Var(u32),
    /// c + sum coef*atom, atoms strictly ascending, coefs non-zero.
    Lin(Box<[(T, u64)]>, u64),
    Mul(T, T),
    And(T, T),
    Or(T, T),
    Xor(T, T),
    Shl(T, u32),
    Lshr(T, u32),
    Ashr(T, u32),
    /// Zero extension of a narrower term (source width stored).
    ZExt(T, u8),
    /// Sign extension of a narrower term (source width stored).
    SExt(T, u8),
    /// Low bits of a wider term: extract [w-1:0] of a term of given width.
    Trunc(T, u8),
    /// Bits [lo+w-1 : lo] of a term of the given source width.
    Extract(T, u8, u8),
    /// Concatenation hi:lo where lo has the stored width.
    Concat(T, T, u8),
    /// if lit then a else b
    Ite(u32, T, T),
}

/// Boolean atoms used as decision literals.
#[derive(Clone, Copy, PartialEq, Eq, Hash, Debug)]
pub enum Atom {
    /// term == 0 (width)
    Eq0(T, u8),
    /// a <u b (width)
    Ult(T, T, u8),
    /// a <s b (width)
    Slt(T, T, u8),
    /// free boolean number k (environment choice: EOF position, injected fault, ...)
    Free(u32),
}

pub type AtomId = u32;

/// A literal: atom id and polarity.
#[derive(Clone, Copy, PartialEq, Eq, Hash, Debug)]
pub struct Lit {
    pub atom: AtomId,
    pub pos: bool,
}

impl Lit {
    pub fn not(self) -> Lit {
        Lit { atom: self.atom, pos: !self.pos }
    }
}

pub fn mask(w: u8) -> u64 {
    if w >= 64 {
        u64::MAX
    } else {
        (1u64 << w) - 1
    }
}

#[derive(Default, Clone, Debug)]
pub struct Witness {
    pub inputs: Vec<u8>,
    pub vars: HashMap<u32, u64>,
    pub frees: HashMap<u32, bool>,
}

impl Witness {
    pub fn input(&self, k: u32) -> u8 {
        self.inputs.get(k as usize).copied().unwrap_or(0)
    }
}

pub struct Arena {
    pub nodes: Vec<(Node, u8)>,
    index: HashMap<(Node, u8), T>,
    pub atoms: Vec<Atom>,
    atom_index: HashMap<Atom, AtomId>,
    next_var: u32,
    // evaluation memo
    eval_epoch: u32,
    eval_memo: Vec<(u32, u64)>,
    pub max_input: i64,
    /// total number of (atom, coefficient) entries held by Lin nodes (memory accounting)
    pub lin_entries: usize,
}

impl Arena {
    pub fn new() -> Self {
        let mut a = Arena {
            nodes: Vec::new(),
            index: HashMap::new(),
            atoms: Vec::new(),
            atom_index: HashMap::new(),
            next_var: 0,
            eval_epoch: 0,
            eval_memo: Vec::new(),
            max_input: -1,
            lin_entries: 0,
        };
        a.nodes.push((Node::Zero, 0));
        a
    }

    pub fn len(&self) -> usize {
        self.nodes.len()
    }

    /// Arena whose handles 1..=8 are ONE and NEG_ONE of widths 8, 16, 32, 64
    /// (compile-time constants of `SymCell`).
    pub fn new_with_reserved() -> Self {
        let mut a = Arena::new();
        for (i, &w) in [8u8, 16, 32, 64].iter().enumerate() {
            let one = a.konst(w, 1);
            let neg = a.konst(w, u64::MAX);
            assert_eq!(one as usize, 1 + 2 * i);
            assert_eq!(neg as usize, 2 + 2 * i);
        }
        a
    }

    fn intern(&mut self, n: Node, w: u8) -> T {
        if let Some(&h) = self.index.get(&(n.clone(), w)) {
            return h;
        }
        let h = self.nodes.len() as T;
        if let Node::Lin(ts, _) = &n {
            self.lin_entries += ts.len();
        }
        self.nodes.push((n.clone(), w));
        self.index.insert((n, w), h);
        h
    }

    pub fn node(&self, h: T) -> &Node {
        &self.nodes[h as usize].0
    }

    pub fn width(&self, h: T) -> u8 {
        self.nodes[h as usize].1
    }

    pub fn konst(&mut self, w: u8, v: u64) -> T {
        let v = v & mask(w);
        if v == 0 {
            0
        } else {
            self.intern(Node::Const(v), w)
        }
    }

    pub fn as_const(&self, h: T) -> Option<u64> {
        match self.node(h) {
            Node::Zero => Some(0),
            Node::Const(v) => Some(*v),
            _ => None,
        }
    }

    pub fn input(&mut self, w: u8, k: u32) -> T {
        if k as i64 > self.max_input {
            self.max_input = k as i64;
        }
        self.intern(Node::Input(k), w)
    }

    pub fn fresh(&mut self, w: u8) -> T {
        let id = self.next_var;
        self.next_var += 1;
        self.intern(Node::Var(id), w)
    }

    pub fn var(&mut self, w: u8, id: u32) -> T {
        if id >= self.next_var {
            self.next_var = id + 1;
        }
        self.intern(Node::Var(id), w)
    }

    fn to_lin(&self, h: T) -> (Vec<(T, u64)>, u64) {
        match self.node(h) {
            Node::Zero => (vec![], 0),
            Node::Const(c) => (vec![], *c),
            Node::Lin(ts, c) => (ts.to_vec(), *c),
            _ => (vec![(h, 1)], 0),
        }
    }

    fn from_lin(&mut self, w: u8, mut ts: Vec<(T, u64)>, c: u64) -> T {
        let m = mask(w);
        ts.retain(|&(_, k)| k & m != 0);
        let c = c & m;
        if ts.is_empty() {
            return self.konst(w, c);
        }
        if ts.len() == 1 && ts[0].1 & m == 1 && c == 0 {
            return ts[0].0;
        }
        for t in ts.iter_mut() {
            t.1 &= m;
        }
        self.intern(Node::Lin(ts.into_boxed_slice(), c), w)
    }

    pub fn add(&mut self, w: u8, a: T, b: T) -> T {
        if a == 0 {
            return b;
        }
        if b == 0 {
            return a;
        }
        let (ta, ca) = self.to_lin(a);
        let (tb, cb) = self.to_lin(b);
        let mut out = Vec::with_capacity(ta.len() + tb.len());
        let (mut i, mut j) = (0, 0);
        while i < ta.len() && j < tb.len() {
            if ta[i].0 < tb[j].0 {
                out.push(ta[i]);
                i += 1;
            } else if ta[i].0 > tb[j].0 {
                out.push(tb[j]);
                j += 1;
            } else {
                out.push((ta[i].0, ta[i].1.wrapping_add(tb[j].1)));
                i += 1;
                j += 1;
            }
        }
        out.extend_from_slice(&ta[i..]);
        out.extend_from_slice(&tb[j..]);
        self.from_lin(w, out, ca.wrapping_add(cb))
    }

    pub fn scale(&mut self, w: u8, a: T, k: u64) -> T {
        let k = k & mask(w);
        if k == 0 || a == 0 {
            return 0;
        }
        if k == 1 {
            return a;
        }
        let (mut ta, ca) = self.to_lin(a);
        for t in ta.iter_mut() {
            t.1 = t.1.wrapping_mul(k);
        }
        self.from_lin(w, ta, ca.wrapping_mul(k))
    }

    pub fn neg(&mut self, w: u8, a: T) -> T {
        self.scale(w, a, u64::MAX)
    }

    pub fn sub(&mut self, w: u8, a: T, b: T) -> T {
        let nb = self.neg(w, b);
        self.add(w, a, nb)
    }

    pub fn mul(&mut self, w: u8, a: T, b: T) -> T {
        if let Some(ka) = self.as_const(a) {
            return self.scale(w, b, ka);
        }
        if let Some(kb) = self.as_const(b) {
            return self.scale(w, a, kb);
        }
        let (x, y) = if a <= b { (a, b) } else { (b, a) };
        self.intern(Node::Mul(x, y), w)
    }

    pub fn and(&mut self, w: u8, a: T, b: T) -> T {
        if a == 0 || b == 0 {
            return 0;
        }
        if a == b {
            return a;
        }
        match (self.as_const(a), self.as_const(b)) {
            (Some(x), Some(y)) => return self.konst(w, x & y),
            (Some(x), _) if x == mask(w) => return b,
            (_, Some(y)) if y == mask(w) => return a,
            _ => {}
        }
        let (x, y) = if a <= b { (a, b) } else { (b, a) };
        self.intern(Node::And(x, y), w)
    }

    pub fn or(&mut self, w: u8, a: T, b: T) -> T {
        if a == 0 {
            return b;
        }
        if b == 0 || a == b {
            return a;
        }
        if let (Some(x), Some(y)) = (self.as_const(a), self.as_const(b)) {
            return self.konst(w, x | y);
        }
        let (x, y) = if a <= b { (a, b) } else { (b, a) };
        self.intern(Node::Or(x, y), w)
    }

    pub fn xor(&mut self, w: u8, a: T, b: T) -> T {
        if a == 0 {
            return b;
        }
        if b == 0 {
            return a;
        }
        if a == b {
            return 0;
        }
        if let (Some(x), Some(y)) = (self.as_const(a), self.as_const(b)) {
            return self.konst(w, x ^ y);
        }
        let (x, y) = if a <= b { (a, b) } else { (b, a) };
        self.intern(Node::Xor(x, y), w)
    }

    pub fn shl(&mut self, w: u8, a: T, by: u32) -> T {
        if by >= w as u32 {
            return 0;
        }
        self.scale(w, a, 1u64 << by)
    }

    pub fn lshr(&mut self, w: u8, a: T, by: u32) -> T {
        if by >= w as u32 || a == 0 {
            return 0;
        }
        if by == 0 {
            return a;
        }
        if let Some(x) = self.as_const(a) {
            return self.konst(w, x >> by);
        }
        self.intern(Node::Lshr(a, by), w)
    }

    pub fn ashr(&mut self, w: u8, a: T, by: u32) -> T {
        if a == 0 {
            return 0;
        }
        if by == 0 {
            return a;
        }
        let by = by.min(w as u32 - 1);
        if let Some(x) = self.as_const(a) {
            let sx = sext64(x, w);
            return self.konst(w, (sx >> by) as u64);
        }
        self.intern(Node::Ashr(a, by), w)
    }

    pub fn zext(&mut self, w: u8, a: T, from: u8) -> T {
        if w == from {
            return a;
        }
        assert!(w > from);
        if let Some(x) = self.as_const(a) {
            return self.konst(w, x);
        }
        if let Node::Input(k) = *self.node(a) {
            // zero extension of a zero-extended byte
            if from >= 8 {
                return self.input(w, k);
            }
        }
        self.intern(Node::ZExt(a, from), w)
    }

    pub fn sext(&mut self, w: u8, a: T, from: u8) -> T {
        if w == from {
            return a;
        }
        assert!(w > from);
        if let Some(x) = self.as_const(a) {
            return self.konst(w, sext64(x, from) as u64);
        }
        self.intern(Node::SExt(a, from), w)
    }

    /// Low `w` bits of `a` which has width `from`.
    pub fn trunc(&mut self, w: u8, a: T, from: u8) -> T {
        if w == from {
            return a;
        }
        assert!(w < from, "trunc {} from {}", w, from);
        if let Some(x) = self.as_const(a) {
            return self.konst(w, x);
        }
        match self.node(a).clone() {
            Node::Input(k) if w >= 8 => return self.input(w, k),
            Node::ZExt(inner, f) if f == w => return inner,
            Node::SExt(inner, f) if f == w => return inner,
            Node::ZExt(inner, f) if f < w => return self.zext(w, inner, f),
            Node::Concat(_, lo, lw) if lw == w => return lo,
            Node::Mul(x, y) => {
                let tx = self.trunc(w, x, from);
                let ty = self.trunc(w, y, from);
                return self.mul(w, tx, ty);
            }
            Node::Lin(ts, c) => {
                // truncation is a ring homomorphism
                let mut out: Vec<(T, u64)> = Vec::with_capacity(ts.len());
                for &(t, k) in ts.iter() {
                    let tt = self.trunc(w, t, from);
                    out.push((tt, k));
                }
                let mut acc = self.konst(w, c);
                for (tt, k) in out {
                    let s = self.scale(w, tt, k);
                    acc = self.add(w, acc, s);
                }
                return acc;
            }
            _ => {}
        }
        self.intern(Node::Trunc(a, from), w)
    }

    /// Bits [lo+w-1:lo] of `a` (width `from`).
    pub fn extract(&mut self, w: u8, a: T, from: u8, lo: u8) -> T {
        if lo == 0 {
            return self.trunc(w, a, from);
        }
        if let Some(x) = self.as_const(a) {
            return self.konst(w, x >> lo);
        }
        if let Node::Concat(hi, _, lw) = self.node(a).clone() {
            if lw == lo && from - lw == w {
                return hi;
            }
        }
        self.intern(Node::Extract(a, from, lo), w)
    }

    /// hi:lo, result width w = hw + lw.
    pub fn concat(&mut self, w: u8, hi: T, lo: T, lw: u8) -> T {
        if let (Some(h), Some(l)) = (self.as_const(hi), self.as_const(lo)) {
            return self.konst(w, (h << lw) | l);
        }
        if hi == 0 {
            return self.zext(w, lo, lw);
        }
        self.intern(Node::Concat(hi, lo, lw), w)
    }

    pub fn ite(&mut self, w: u8, c: Lit, a: T, b: T) -> T {
        if a == b {
            return a;
        }
        let (c, a, b) = if c.pos { (c, a, b) } else { (c.not(), b, a) };
        self.intern(Node::Ite(c.atom, a, b), w)
    }

    // ---- atoms -------------------------------------------------------

    pub fn atom(&mut self, a: Atom) -> AtomId {
        if let Some(&i) = self.atom_index.get(&a) {
            return i;
        }
        let i = self.atoms.len() as AtomId;
        self.atoms.push(a);
        self.atom_index.insert(a, i);
        i
    }

    /// Literal for a == b, or a constant truth value.
    pub fn eq_lit(&mut self, w: u8, a: T, b: T) -> Result<Lit, bool> {
        if a == b {
            return Err(true);
        }
        let d = self.sub(w, a, b);
        if let Some(c) = self.as_const(d) {
            return Err(c == 0);
        }
        // sign normalisation: d == 0 <=> -d == 0
        let nd = self.neg(w, d);
        let d = if self.lead_coef(nd) < self.lead_coef(d) { nd } else { d };
        let at = self.atom(Atom::Eq0(d, w));
        Ok(Lit { atom: at, pos: true })
    }

    fn lead_coef(&self, h: T) -> u64 {
        match self.node(h) {
            Node::Lin(ts, _) => ts[0].1,
            _ => 1,
        }
    }

    pub fn ult_lit(&mut self, w: u8, a: T, b: T) -> Result<Lit, bool> {
        if a == b {
            return Err(false);
        }
        if let (Some(x), Some(y)) = (self.as_const(a), self.as_const(b)) {
            return Err(x < y);
        }
        if b == 0 {
            return Err(false);
        }
        let at = self.atom(Atom::Ult(a, b, w));
        Ok(Lit { atom: at, pos: true })
    }

    pub fn slt_lit(&mut self, w: u8, a: T, b: T) -> Result<Lit, bool> {
        if a == b {
            return Err(false);
        }
        if let (Some(x), Some(y)) = (self.as_const(a), self.as_const(b)) {
            return Err(sext64(x, w) < sext64(y, w));
        }
        let at = self.atom(Atom::Slt(a, b, w));
        Ok(Lit { atom: at, pos: true })
    }

    pub fn free_lit(&mut self, k: u32) -> Lit {
        let at = self.atom(Atom::Free(k));
        Lit { atom: at, pos: true }
    }

    // ---- evaluation --------------------------------------------------

    pub fn new_eval_epoch(&mut self) {
        self.eval_epoch = self.eval_epoch.wrapping_add(1);
        if self.eval_epoch == 0 {
            self.eval_memo.clear();
            self.eval_epoch = 1;
        }
    }

    pub fn eval(&mut self, h: T, wit: &Witness) -> u64 {
        // iterative post-order to avoid deep recursion
        if self.eval_memo.len() < self.nodes.len() {
            self.eval_memo.resize(self.nodes.len(), (0, 0));
        }
        let mut stack: Vec<(T, bool)> = vec![(h, false)];
        while let Some((t, expanded)) = stack.pop() {
            if self.eval_memo[t as usize].0 == self.eval_epoch {
                continue;
            }
            if !expanded {
                stack.push((t, true));
                let mut push = |x: T| stack.push((x, false));
                match &self.nodes[t as usize].0 {
                    Node::Lin(ts, _) => {
                        for &(a, _) in ts.iter() {
                            push(a)
                        }
                    }
                    Node::Mul(a, b) | Node::And(a, b) | Node::Or(a, b) | Node::Xor(a, b) => {
                        push(*a);
                        push(*b)
                    }
                    Node::Concat(a, b, _) => {
                        push(*a);
                        push(*b)
                    }
                    Node::Shl(a, _)
                    | Node::Lshr(a, _)
                    | Node::Ashr(a, _)
                    | Node::ZExt(a, _)
                    | Node::SExt(a, _)
                    | Node::Trunc(a, _)
                    | Node::Extract(a, _, _) => push(*a),
                    Node::Ite(c, a, b) => {
                        push(*a);
                        push(*b);
                        match self.atoms[*c as usize] {
                            Atom::Eq0(x, _) => push(x),
                            Atom::Ult(x, y, _) | Atom::Slt(x, y, _) => {
                                push(x);
                                push(y)
                            }
                            Atom::Free(_) => {}
                        }
                    }
                    _ => {}
                }
                continue;
            }
            let (node, w) = &self.nodes[t as usize];
            let w = *w;
            let m = mask(w);
            let g = |x: T| self.eval_memo[x as usize].1;
            let v = match node {
                Node::Zero => 0,
                Node::Const(c) => *c,
                Node::Input(k) => wit.input(*k) as u64,
                Node::Var(id) => wit.vars.get(id).copied().unwrap_or(0),
                Node::Lin(ts, c) => {
                    let mut s = *c;
                    for &(a, k) in ts.iter() {
                        s = s.wrapping_add(g(a).wrapping_mul(k));
                    }
                    s
                }
                Node::Mul(a, b) => g(*a).wrapping_mul(g(*b)),
                Node::And(a, b) => g(*a) & g(*b),
                Node::Or(a, b) => g(*a) | g(*b),
                Node::Xor(a, b) => g(*a) ^ g(*b),
                Node::Shl(a, by) => g(*a) << by,
                Node::Lshr(a, by) => g(*a) >> by,
                Node::Ashr(a, by) => (sext64(g(*a), w) >> by) as u64,
                Node::ZExt(a, _) => g(*a),
                Node::SExt(a, f) => sext64(g(*a), *f) as u64,
                Node::Trunc(a, _) => g(*a),
                Node::Extract(a, _, lo) => g(*a) >> lo,
                Node::Concat(a, b, lw) => (g(*a) << lw) | g(*b),
                Node::Ite(c, a, b) => {
                    if self.eval_atom_memo(*c, wit) {
                        g(*a)
                    } else {
                        g(*b)
                    }
                }
            } & m;
            self.eval_memo[t as usize] = (self.eval_epoch, v);
        }
        self.eval_memo[h as usize].1
    }

    fn eval_atom_memo(&self, a: AtomId, wit: &Witness) -> bool {
        let g = |x: T| self.eval_memo[x as usize].1;
        match self.atoms[a as usize] {
            Atom::Eq0(t, _) => g(t) == 0,
            Atom::Ult(x, y, _) => g(x) < g(y),
            Atom::Slt(x, y, w) => sext64(g(x), w) < sext64(g(y), w),
            Atom::Free(k) => wit.frees.get(&k).copied().unwrap_or(false),
        }
    }

    pub fn eval_atom(&mut self, a: AtomId, wit: &Witness) -> bool {
        match self.atoms[a as usize] {
            Atom::Eq0(t, _) => self.eval(t, wit) == 0,
            Atom::Ult(x, y, _) => {
                let vx = self.eval(x, wit);
                let vy = self.eval(y, wit);
                vx < vy
            }
            Atom::Slt(x, y, w) => {
                let vx = self.eval(x, wit);
                let vy = self.eval(y, wit);
                sext64(vx, w) < sext64(vy, w)
            }
            Atom::Free(k) => wit.frees.get(&k).copied().unwrap_or(false),
        }
    }

    // ---- SMT-LIB -----------------------------------------------------

    pub fn smt_const(w: u8, v: u64) -> String {
        format!("(_ bv{} {})", v & mask(w), w)
    }

    fn r(&self, h: T, w: u8) -> String {
        if h == 0 {
            Self::smt_const(w, 0)
        } else {
            format!("t{}", h)
        }
    }

    /// Children (term handles) a node's definition refers to.
    pub fn children(&self, h: T) -> Vec<T> {
        match self.node(h) {
            Node::Lin(ts, _) => ts.iter().map(|x| x.0).collect(),
            Node::Mul(a, b) | Node::And(a, b) | Node::Or(a, b) | Node::Xor(a, b) => vec![*a, *b],
            Node::Concat(a, b, _) => vec![*a, *b],
            Node::Shl(a, _)
            | Node::Lshr(a, _)
            | Node::Ashr(a, _)
            | Node::ZExt(a, _)
            | Node::SExt(a, _)
            | Node::Trunc(a, _)
            | Node::Extract(a, _, _) => vec![*a],
            Node::Ite(c, a, b) => {
                let mut v = vec![*a, *b];
                v.extend(self.atom_children(*c));
                v
            }
            _ => vec![],
        }
    }

    pub fn atom_children(&self, a: AtomId) -> Vec<T> {
        match self.atoms[a as usize] {
            Atom::Eq0(t, _) => vec![t],
            Atom::Ult(x, y, _) | Atom::Slt(x, y, _) => vec![x, y],
            Atom::Free(_) => vec![],
        }
    }

    /// SMT-LIB command(s) defining term h, assuming children are defined.
    pub fn smt_def(&self, h: T) -> String {
        let (node, w) = &self.nodes[h as usize];
        let w = *w;
        let body = match node {
            Node::Zero => return String::new(),
            Node::Const(c) => Self::smt_const(w, *c),
            Node::Input(k) => {
                if w == 8 {
                    format!("in{}", k)
                } else if w < 8 {
                    format!("((_ extract {} 0) in{})", w - 1, k)
                } else {
                    format!("((_ zero_extend {}) in{})", w - 8, k)
                }
            }
            Node::Var(id) => format!("v{}_{}", id, w),
            Node::Lin(ts, c) => {
                let mut s = String::from("(bvadd");
                for &(a, k) in ts.iter() {
                    if k == 1 {
                        s.push_str(&format!(" {}", self.r(a, w)));
                    } else {
                        s.push_str(&format!(" (bvmul {} {})", Self::smt_const(w, k), self.r(a, w)));
                    }
                }
                if *c != 0 || ts.len() < 2 {
                    s.push_str(&format!(" {}", Self::smt_const(w, *c)));
                }
                s.push(')');
                s
            }
            Node::Mul(a, b) => format!("(bvmul {} {})", self.r(*a, w), self.r(*b, w)),
            Node::And(a, b) => format!("(bvand {} {})", self.r(*a, w), self.r(*b, w)),
            Node::Or(a, b) => format!("(bvor {} {})", self.r(*a, w), self.r(*b, w)),
            Node::Xor(a, b) => format!("(bvxor {} {})", self.r(*a, w), self.r(*b, w)),
            Node::Shl(a, by) => format!("(bvshl {} {})", self.r(*a, w), Self::smt_const(w, *by as u64)),
            Node::Lshr(a, by) => format!("(bvlshr {} {})", self.r(*a, w), Self::smt_const(w, *by as u64)),
            Node::Ashr(a, by) => format!("(bvashr {} {})", self.r(*a, w), Self::smt_const(w, *by as u64)),
            Node::ZExt(a, f) => format!("((_ zero_extend {}) {})", w - f, self.r(*a, *f)),
            Node::SExt(a, f) => format!("((_ sign_extend {}) {})", w - f, self.r(*a, *f)),
            Node::Trunc(a, f) => format!("((_ extract {} 0) {})", w - 1, self.r(*a, *f)),
            Node::Extract(a, f, lo) => format!("((_ extract {} {}) {})", lo + w - 1, lo, self.r(*a, *f)),
            Node::Concat(a, b, lw) => format!("(concat {} {})", self.r(*a, w - lw), self.r(*b, *lw)),
            Node::Ite(c, a, b) => format!("(ite {} {} {})", self.smt_atom(*c), self.r(*a, w), self.r(*b, w)),
        };
        format!("(define-fun t{} () (_ BitVec {}) {})\n", h, w, body)
    }

    pub fn smt_atom(&self, a: AtomId) -> String {
        match self.atoms[a as usize] {
            Atom::Eq0(t, w) => format!("(= {} {})", self.r(t, w), Self::smt_const(w, 0)),
            Atom::Ult(x, y, w) => format!("(bvult {} {})", self.r(x, w), self.r(y, w)),
            Atom::Slt(x, y, w) => format!("(bvslt {} {})", self.r(x, w), self.r(y, w)),
            Atom::Free(k) => format!("f{}", k),
        }
    }

    /// Human-readable rendering (bounded depth).
    pub fn show(&self, h: T) -> String {
        self.show_d(h, 6)
    }

    fn show_d(&self, h: T, d: u32) -> String {
        if d == 0 {
            return format!("t{}", h);
        }
        let (node, w) = &self.nodes[h as usize];
        match node {
            Node::Zero => "0".into(),
            Node::Const(c) => format!("{}", c),
            Node::Input(k) => format!("in{}", k),
            Node::Var(id) => format!("v{}", id),
            Node::Lin(ts, c) => {
                let mut parts: Vec<String> = ts
                    .iter()
                    .map(|&(a, k)| {
                        if k == 1 {
                            self.show_d(a, d - 1)
                        } else {
                            format!("{}*{}", k, self.show_d(a, d - 1))
                        }
                    })
                    .collect();
                if *c != 0 {
                    parts.push(format!("{}", c));
                }
                format!("({})", parts.join("+"))
            }
            Node::Mul(a, b) => format!("({}*{})", self.show_d(*a, d - 1), self.show_d(*b, d - 1)),
            Node::And(a, b) => format!("({}&{})", self.show_d(*a, d - 1), self.show_d(*b, d - 1)),
            Node::Or(a, b) => format!("({}|{})", self.show_d(*a, d - 1), self.show_d(*b, d - 1)),
            Node::Xor(a, b) => format!("({}^{})", self.show_d(*a, d - 1), self.show_d(*b, d - 1)),
            Node::Shl(a, by) => format!("({}<<{})", self.show_d(*a, d - 1), by),
            Node::Lshr(a, by) => format!("({}>>{})", self.show_d(*a, d - 1), by),
            Node::Ashr(a, by) => format!("({}>>s{})", self.show_d(*a, d - 1), by),
            Node::ZExt(a, _) => format!("zx{}({})", w, self.show_d(*a, d - 1)),
            Node::SExt(a, _) => format!("sx{}({})", w, self.show_d(*a, d - 1)),
            Node::Trunc(a, _) => format!("tr{}({})", w, self.show_d(*a, d - 1)),
            Node::Extract(a, _, lo) => format!("ex[{}+{}]({})", lo, w, self.show_d(*a, d - 1)),
            Node::Concat(a, b, _) => format!("({}:{})", self.show_d(*a, d - 1), self.show_d(*b, d - 1)),
            Node::Ite(c, a, b) => format!("ite(b{},{},{})", c, self.show_d(*a, d - 1), self.show_d(*b, d - 1)),
        }
    }
}

pub fn sext64(x: u64, w: u8) -> i64 {
    if w >= 64 {
        x as i64
    } else {
        let sh = 64 - w as u32;
        ((x << sh) as i64) >> sh
    }
}

/// Differential self-test of the normalising constructors against direct
/// evaluation: random expression trees are built twice (through the arena and
/// as plain u64 arithmetic on a random witness) and must agree.
pub fn selftest(seed: u64) -> Result<usize, String> {
    let mut s = seed | 1;
    let mut rnd = move || {
        s ^= s << 13;
        s ^= s >> 7;
        s ^= s << 17;
        s
    };
    let mut checked = 0usize;
    for &w in &[8u8, 16, 32, 64] {
        let m = mask(w);
        for _ in 0..200 {
            let mut ar = Arena::new();
            let wit = Witness {
                inputs: (0..4).map(|_| rnd() as u8).collect(),
                vars: (0..3).map(|i| (i, rnd() & m)).collect(),
                frees: HashMap::new(),
            };
            let mut pool: Vec<(T, u64)> = Vec::new();
            for k in 0..4u32 {
                pool.push((ar.input(w, k), wit.input(k) as u64 & m));
            }
            for i in 0..3u32 {
                pool.push((ar.var(w, i), wit.vars[&i]));
            }
            for _ in 0..4 {
                let c = match rnd() % 4 {
                    0 => rnd() & m,
                    1 => m,
                    2 => 1u64 << (rnd() % w as u64),
                    _ => rnd() % 4,
                };
                pool.push((ar.konst(w, c), c & m));
            }
            for _ in 0..40 {
                let (a, va) = pool[(rnd() % pool.len() as u64) as usize];
                let (b, vb) = pool[(rnd() % pool.len() as u64) as usize];
                let by = (rnd() % (w as u64 + 2)) as u32;
                let (t, v) = match rnd() % 9 {
                    0 => (ar.add(w, a, b), va.wrapping_add(vb) & m),
                    1 => (ar.sub(w, a, b), va.wrapping_sub(vb) & m),
                    2 => (ar.mul(w, a, b), va.wrapping_mul(vb) & m),
                    3 => (ar.neg(w, a), va.wrapping_neg() & m),
                    4 => (ar.and(w, a, b), va & vb),
                    5 => (ar.shl(w, a, by), if by >= w as u32 { 0 } else { (va << by) & m }),
                    6 => (ar.lshr(w, a, by), if by >= w as u32 { 0 } else { va >> by }),
                    7 => (ar.xor(w, a, b), va ^ vb),
                    _ => (ar.or(w, a, b), va | vb),
                };
                ar.new_eval_epoch();
                let got = ar.eval(t, &wit);
                if got != v {
                    return Err(format!("normaliser self-test failed at width {}: {} evaluates to {} expected {}", w, ar.show(t), got, v));
                }
                checked += 1;
                pool.push((t, v));
            }
            // width-changing ops
            if w > 8 {
                let (a, va) = pool[(rnd() % pool.len() as u64) as usize];
                let t = ar.trunc(8, a, w);
                ar.new_eval_epoch();
                if ar.eval(t, &wit) != va & 0xff {
                    return Err(format!("trunc self-test failed at width {}: {}", w, ar.show(a)));
                }
                let z = ar.zext(w, t, 8);
                ar.new_eval_epoch();
                if ar.eval(z, &wit) != va & 0xff {
                    return Err("zext self-test failed".into());
                }
                let sx = ar.sext(w, t, 8);
                ar.new_eval_epoch();
                if ar.eval(sx, &wit) != (sext64(va & 0xff, 8) as u64) & m {
                    return Err("sext self-test failed".into());
                }
                checked += 3;
            }
        }
    }
    Ok(checked)
}
