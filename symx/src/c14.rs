//! C14 at 16/32/64 bits: the real default methods of `CellType` are executed over
//! `SymCell<W>` (forking on `trailing_zeros`, `==`, the `wrapping_pow` loop) and the
//! resulting terms are handed to the solver.

use crate::engine::{self, explore, feasible, with, HashMode, IoCfg, Limits, PathEnd};
use crate::solver::{Answer, Kind, Stats};
use crate::symcell::SymCell;
use crate::term::{mask, Witness, T};
use hpbf::CellType;
use serde_json::{json, Value};

#[derive(Default)]
pub struct Out {
    pub obligations: u64,
    pub discharged: u64,
    pub paths: u64,
    pub inconclusive: Vec<String>,
    pub violations: Vec<String>,
    pub stats: Stats,
    pub samples: Vec<Value>,
    /// (label, obligation, width) -> (discharged, unknown, seconds)
    pub classes: std::collections::BTreeMap<String, (u64, u64, f64)>,
    pub deadline: Option<std::time::Instant>,
    pub skipped_by_time_box: u64,
    pub undecided: u64,
}

enum Ob {
    Ok,
    Cex(String),
    Unknown(String),
}

/// The conjunction of `lits` must be unsatisfiable on the current path.
fn must_be_unsat(lits: &[crate::term::Lit], what: &str) -> Ob {
    // past the exploration's slice of the time box nothing more is asked of the solver
    if with(|c| c.job_deadline.map_or(false, |d| std::time::Instant::now() > d)) {
        engine::abort(engine::Abort::Truncated("job time cap reached".into()));
    }
    let mut m = Witness::default();
    match feasible(lits, Some(&mut m)) {
        Answer::Unsat => Ob::Ok,
        Answer::Sat => Ob::Cex(format!("{}: model vars={:?}", what, m.vars)),
        Answer::Unknown(s) => Ob::Unknown(format!("{}: solver answered {}", what, s)),
    }
}

fn div_obligations<const B: u32>(n: SymCell<B>, d: SymCell<B>, out: &mut Vec<(String, Ob)>) {
    let w = B as u8;
    let r = n.wrapping_div(d);
    let y = with(|c| c.ar.fresh(w));
    match r {
        Some(x) => {
            // x*d == n
            let l = with(|c| {
                let p = c.ar.mul(w, x.0, d.0);
                c.ar.eq_lit(w, p, n.0)
            });
            out.push((
                "x*d == n".into(),
                match l {
                    Err(true) => Ob::Ok,
                    Err(false) => Ob::Cex("x*d != n (constant)".into()),
                    Ok(l) => must_be_unsat(&[l.not()], "x*d != n"),
                },
            ));
            // no smaller solution: y <u x and y*d == n is unsat
            let (l1, l2) = with(|c| {
                let p = c.ar.mul(w, y, d.0);
                (c.ar.ult_lit(w, y, x.0), c.ar.eq_lit(w, p, n.0))
            });
            let ob = match (l1, l2) {
                (Err(false), _) | (_, Err(false)) => Ob::Ok,
                (Ok(a), Ok(b)) => must_be_unsat(&[a, b], "a smaller solution exists"),
                (Ok(a), Err(true)) => must_be_unsat(&[a], "a smaller solution exists"),
                (Err(true), Ok(b)) => must_be_unsat(&[b], "a smaller solution exists"),
                (Err(true), Err(true)) => Ob::Cex("a smaller solution exists (constant)".into()),
            };
            out.push(("x is the smallest solution".into(), ob));
        }
        None => {
            let l = with(|c| {
                let p = c.ar.mul(w, y, d.0);
                c.ar.eq_lit(w, p, n.0)
            });
            out.push((
                "none only when no solution exists".into(),
                match l {
                    Err(false) => Ob::Ok,
                    Err(true) => Ob::Cex("returned none although a solution exists (constant)".into()),
                    Ok(l) => must_be_unsat(&[l], "returned none although y*d == n is satisfiable"),
                },
            ));
        }
    }
}

fn inv_obligations<const B: u32>(d: SymCell<B>, out: &mut Vec<(String, Ob)>) {
    let w = B as u8;
    let r = d.wrapping_inv();
    let one = with(|c| c.ar.konst(w, 1));
    let odd = with(|c| {
        let a = c.ar.and(w, d.0, one);
        c.ar.eq_lit(w, a, one)
    });
    match r {
        Some(i) => {
            let l = with(|c| {
                let p = c.ar.mul(w, i.0, d.0);
                c.ar.eq_lit(w, p, one)
            });
            out.push((
                "inv*d == 1".into(),
                match l {
                    Err(true) => Ob::Ok,
                    Err(false) => Ob::Cex("inv*d != 1 (constant)".into()),
                    Ok(l) => must_be_unsat(&[l.not()], "inv*d != 1"),
                },
            ));
            out.push((
                "inverse only for odd values".into(),
                match odd {
                    Err(true) => Ob::Ok,
                    Err(false) => Ob::Cex("inverse returned for an even value".into()),
                    Ok(l) => must_be_unsat(&[l.not()], "inverse returned for an even value"),
                },
            ));
        }
        None => out.push((
            "no inverse only for even values".into(),
            match odd {
                Err(false) => Ob::Ok,
                Err(true) => Ob::Cex("no inverse for an odd value".into()),
                Ok(l) => must_be_unsat(&[l], "no inverse for an odd value"),
            },
        )),
    }
}

fn pow_obligations<const B: u32>(b: SymCell<B>, e: u64, out: &mut Vec<(String, Ob)>) {
    let w = B as u8;
    let p = b.wrapping_pow(SymCell::<B>::konst(e));
    let q = b.wrapping_pow(SymCell::<B>::konst(e + 1));
    let l = with(|c| {
        let pb = c.ar.mul(w, p.0, b.0);
        c.ar.eq_lit(w, q.0, pb)
    });
    out.push((
        format!("pow(b,{}) == pow(b,{})*b", e + 1, e),
        match l {
            Err(true) => Ob::Ok,
            Err(false) => Ob::Cex("constant mismatch".into()),
            Ok(l) => must_be_unsat(&[l.not()], "pow(b,e+1) != pow(b,e)*b"),
        },
    ));
    if e == 0 {
        let one = with(|c| c.ar.konst(w, 1));
        out.push(("pow(b,0) == 1".into(), if p.0 == one { Ob::Ok } else { Ob::Cex("pow(b,0) != 1".into()) }));
    }
}

fn run_explore<const B: u32>(label: &str, kind: Kind, timeout_ms: u64, out: &mut Out, f: &dyn Fn(&mut Vec<(String, Ob)>)) {
    let timeout_ms = std::env::var("C14_CAP_MS").ok().and_then(|s| s.parse().ok()).unwrap_or(timeout_ms);
    if let Some(d) = out.deadline {
        if std::time::Instant::now() > d {
            out.skipped_by_time_box += 1;
            return;
        }
    }
    engine::init(kind, timeout_ms, Limits { max_decisions: 4096, max_paths: 100_000, max_ops: 50_000_000 }, HashMode::Uniform, IoCfg::default());
    // an exploration that is still running at the end of its slice of the time box is cut there
    // (at least 20 s are granted to one started late); what is cut is counted as skipped, never as decided
    let cut = out.deadline.map(|d| d.max(std::time::Instant::now() + std::time::Duration::from_secs(20)));
    with(|c| {
        c.width = B as u8;
        c.job_deadline = cut;
    });
    let t0 = std::time::Instant::now();
    let ex = explore(|| {
        let mut obs = Vec::new();
        f(&mut obs);
        obs
    });
    let dt = t0.elapsed().as_secs_f64();
    let npaths = ex.paths.len().max(1) as f64;
    for p in ex.paths {
        out.paths += 1;
        match p.end {
            PathEnd::Done(obs) => {
                for (name, ob) in obs {
                    out.obligations += 1;
                    let key = format!("{} | {} | w{}", label, if name.starts_with("pow(") { "pow recurrence" } else { &name }, B);
                    let e = out.classes.entry(key).or_insert((0, 0, 0.0));
                    e.2 += dt / npaths;
                    match &ob {
                        Ob::Ok => e.0 += 1,
                        Ob::Unknown(_) => e.1 += 1,
                        _ => {}
                    }
                    match ob {
                        Ob::Ok => out.discharged += 1,
                        Ob::Cex(s) => out.violations.push(format!("{} w{}: {}: {}", label, B, name, s)),
                        Ob::Unknown(_) => out.undecided += 1,
                    }
                }
            }
            PathEnd::Abort(engine::Abort::Truncated(t)) if t.contains("job time cap") => out.skipped_by_time_box += 1,
            PathEnd::Abort(a) => out.inconclusive.push(format!("{} w{}: {:?}", label, B, a)),
            PathEnd::Panic(s) => out.violations.push(format!("{} w{}: panic in the real code: {}", label, B, s)),
        }
    }
    if ex.dropped_items > 0 {
        if cut.map_or(false, |d| std::time::Instant::now() > d) {
            out.skipped_by_time_box += ex.dropped_items as u64;
        } else {
            out.inconclusive.push(format!("{} w{}: {} work items dropped by the path cap", label, B, ex.dropped_items));
        }
    }
    out.stats.add(&engine::take_stats());
}

pub fn odd_set(w: u32, seed: u64, extra: usize) -> Vec<u64> {
    let m = mask(w as u8);
    let mut v: Vec<u64> = vec![1, 3, 5, 7, 9, 11, 13, 15, 0x9E3779B97F4A7C15 | 1, 0x5555555555555555, 0x3333333333333333, m, m - 2];
    for k in 2..w {
        v.push((1u64 << k).wrapping_add(1));
        v.push((1u64 << k).wrapping_sub(1));
    }
    let mut r = crate::corpus::Rng::new(seed ^ 0xC14);
    for _ in 0..extra {
        v.push(r.next() | 1);
    }
    let mut v: Vec<u64> = v.into_iter().map(|x| (x & m) | 1).collect();
    v.sort();
    v.dedup();
    v
}

fn width_part<const B: u32>(seed: u64, thorough: bool, out: &mut Out) -> Value {
    let w = B as u8;
    let mut desc = json!({});
    if B == 16 && thorough {
        // bonus attempt (not part of the claim, never counted as success when it times out):
        // n and d both symbolic, the code's own case analysis forks on the solver
        let mut bonus = Out::default();
        bonus.deadline = out.deadline;
        run_explore::<B>("div(n,d) fully symbolic", Kind::Z3, 30_000, &mut bonus, &|obs| {
            let (n, d) = with(|c| (c.ar.var(w, 0), c.ar.var(w, 1)));
            div_obligations::<B>(SymCell(n), SymCell(d), obs);
        });
        run_explore::<B>("inv(d) fully symbolic", Kind::Z3, 30_000, &mut bonus, &|obs| {
            let d = with(|c| c.ar.var(w, 1));
            inv_obligations::<B>(SymCell(d), obs);
        });
        out.violations.extend(bonus.violations.iter().cloned());
        out.stats.add(&bonus.stats);
        desc["fully_symbolic_16_bit_attempt"] = json!({"obligations": bonus.obligations, "discharged": bonus.discharged, "timed_out_or_unknown": bonus.inconclusive.len(), "note": "obligations that timed out are inconclusive and are not counted anywhere else"});
    }
    {
        // bounded: every shift class x odd part from a stated set, n fully symbolic
        let odds = odd_set(B, seed, if thorough { 64 } else { 6 });
        let shifts: Vec<u32> = (0..B).collect();
        let mut count = 0u64;
        // inverse of every odd constant of the set (concrete evaluation of the real code over
        // terms: milliseconds each).  Done first and outside the time box: under load the box
        // used to cut the 64-bit part before it got here, and a `wrapping_inv` that is exact
        // up to 48 bits (seeded change W6-C01) went through.
        let boxed = out.deadline.take();
        for &o in odds.iter() {
            run_explore::<B>("inv(const d)", Kind::Portfolio, 5_000, out, &|obs| {
                inv_obligations::<B>(SymCell::<B>::konst(o), obs);
                inv_obligations::<B>(SymCell::<B>::konst(o.wrapping_add(1) & mask(w)), obs);
            });
        }
        out.deadline = boxed;
        for (oi, &o) in odds.iter().enumerate() {
            for &s in &shifts {
                if !thorough && !(s < 3 || s % 8 == (oi as u32 % 8) || s + 2 >= B) {
                    continue;
                }
                let dv = (o << s) & mask(w);
                if dv == 0 {
                    continue;
                }
                count += 1;
                run_explore::<B>("div(n, const d)", Kind::Portfolio, 5_000, out, &|obs| {
                    let n = with(|c| c.ar.var(w, 0));
                    div_obligations::<B>(SymCell(n), SymCell::<B>::konst(dv), obs);
                });
            }
        }
        // d == 0
        run_explore::<B>("div(n, 0)", Kind::Portfolio, 5_000, out, &|obs| {
            let n = with(|c| c.ar.var(w, 0));
            div_obligations::<B>(SymCell(n), SymCell::<B>::konst(0), obs);
        });
        desc["div_inv"] = json!(format!("n fully symbolic; d = odd << shift for {} odd parts x {} = {} divisors, plus d = 0", odds.len(), if thorough { "every shift class" } else { "a stratified subset of the shift classes (all of them in the thorough tier)" }, count));
        desc["odd_parts_sample"] = json!(odds.iter().take(12).collect::<Vec<_>>());
    }
    // power: base symbolic, exponent from a set
    let exps: Vec<u64> = if B == 16 { vec![0, 1, 2, 3, 4, 5, 6, 7, 8, 15, 16, 31, 255, 256, 65534] } else { vec![0, 1, 2, 3, 4, 5, 6, 7] };
    for &e in &exps {
        run_explore::<B>("pow(b, const e)", Kind::Z3, if thorough { 60_000 } else { 15_000 }, out, &|obs| {
            let b = with(|c| c.ar.var(w, 2));
            pow_obligations::<B>(SymCell(b), e, obs);
        });
    }
    desc["pow"] = json!(format!("base fully symbolic, exponents {:?}", exps));
    desc
}

pub fn run(seed: u64, thorough: bool) -> (Out, Value) {
    let mut out = Out::default();
    out.deadline = Some(std::time::Instant::now() + std::time::Duration::from_secs(if thorough { 1200 } else { 150 }));
    let total = if thorough { 1200 } else { 150 };
    let t0 = std::time::Instant::now();
    out.deadline = Some(t0 + std::time::Duration::from_secs(total / 3));
    let d16 = width_part::<16>(seed, thorough, &mut out);
    out.deadline = Some(t0 + std::time::Duration::from_secs(2 * total / 3));
    let d32 = width_part::<32>(seed, thorough, &mut out);
    out.deadline = Some(t0 + std::time::Duration::from_secs(total));
    let d64 = width_part::<64>(seed, thorough, &mut out);
    let desc = json!({"w16": d16, "w32": d32, "w64": d64});
    (out, desc)
}

pub fn _t(_: T) {}
