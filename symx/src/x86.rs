//! E2: a symbolic model of the x86-64 subset the baseline JIT emits.  The decoder is
//! written from the Intel SDM and shares nothing with hpbf's `asm.rs`.  Registers, stack
//! slots and tape cells hold SMT terms; every address is required to be concrete on the
//! path and is bounds-checked exactly against the shadow context's current allocation,
//! the frame reserved by the prologue, or the four context words.

use crate::engine::{self, decide, with, Event};
use crate::term::{Lit, T};
use std::collections::HashMap;

#[derive(Clone, Copy, Debug, PartialEq)]
pub enum Rm {
    Reg(u8),
    Mem { base: Option<u8>, idx: Option<u8>, scale: u8, disp: i32 },
}

#[derive(Clone, Copy, Debug, PartialEq)]
pub enum Op {
    Push,
    Pop,
    /// group-1 style ALU op: 0 add, 5 sub, 7 cmp
    AluRmR(u8),
    AluRRm(u8),
    AluRmImm(u8),
    ImulRRmImm,
    ImulRRm,
    Inc,
    Dec,
    CallRm,
    MovRmImm,
    MovRImm64,
    MovRRm,
    MovRmR,
    Movzx(u8),
    Lea,
    TestRmR,
    Jmp,
    Jcc(u8),
    SarImm,
    Ret,
}

#[derive(Clone, Copy, Debug)]
pub struct Ins {
    pub len: usize,
    pub op: Op,
    /// operand size in bits
    pub w: u8,
    pub reg: u8,
    pub rm: Rm,
    pub imm: i64,
    /// an 8-bit register operand without REX selects AH/CH/DH/BH
    pub high_byte: bool,
}

pub fn decode(code: &[u8], at: usize) -> Result<Ins, String> {
    let mut i = at;
    let get = |i: usize| -> Result<u8, String> { code.get(i).copied().ok_or_else(|| format!("code ends inside an instruction at {:#x}", at)) };
    let mut opsize16 = false;
    let mut rex: u8 = 0;
    let mut has_rex = false;
    loop {
        let b = get(i)?;
        if b == 0x66 {
            opsize16 = true;
            i += 1;
        } else if (0x40..=0x4f).contains(&b) {
            rex = b & 0xf;
            has_rex = true;
            i += 1;
            break;
        } else {
            break;
        }
    }
    let rex_w = rex & 8 != 0;
    let rex_r = (rex >> 2) & 1;
    let rex_x = (rex >> 1) & 1;
    let rex_b = rex & 1;
    let opc = get(i)?;
    i += 1;
    let width = |byte_op: bool| -> u8 {
        if byte_op {
            8
        } else if rex_w {
            64
        } else if opsize16 {
            16
        } else {
            32
        }
    };
    // ModRM parser
    let modrm = |i: &mut usize| -> Result<(u8, Rm), String> {
        let m = get(*i)?;
        *i += 1;
        let md = m >> 6;
        let reg = ((m >> 3) & 7) | (rex_r << 3);
        let rmf = m & 7;
        if md == 3 {
            return Ok((reg, Rm::Reg(rmf | (rex_b << 3))));
        }
        let mut base: Option<u8>;
        let mut idx: Option<u8> = None;
        let mut scale = 1u8;
        if rmf == 4 {
            let sib = get(*i)?;
            *i += 1;
            scale = 1 << (sib >> 6);
            let ix = ((sib >> 3) & 7) | (rex_x << 3);
            if ix != 4 {
                idx = Some(ix);
            }
            let b = sib & 7;
            if b == 5 && md == 0 {
                base = None;
            } else {
                base = Some(b | (rex_b << 3));
            }
        } else if rmf == 5 && md == 0 {
            return Err("RIP-relative addressing is outside the emitted subset".into());
        } else {
            base = Some(rmf | (rex_b << 3));
        }
        let disp: i32 = match md {
            0 => {
                if base.is_none() {
                    let d = i32::from_le_bytes([get(*i)?, get(*i + 1)?, get(*i + 2)?, get(*i + 3)?]);
                    *i += 4;
                    d
                } else {
                    0
                }
            }
            1 => {
                let d = get(*i)? as i8 as i32;
                *i += 1;
                d
            }
            _ => {
                let d = i32::from_le_bytes([get(*i)?, get(*i + 1)?, get(*i + 2)?, get(*i + 3)?]);
                *i += 4;
                d
            }
        };
        if base == Some(255) {
            base = None;
        }
        Ok((reg, Rm::Mem { base, idx, scale, disp }))
    };
    let imm8 = |i: &mut usize| -> Result<i64, String> {
        let v = get(*i)? as i8 as i64;
        *i += 1;
        Ok(v)
    };
    let imm16 = |i: &mut usize| -> Result<i64, String> {
        let v = i16::from_le_bytes([get(*i)?, get(*i + 1)?]) as i64;
        *i += 2;
        Ok(v)
    };
    let imm32 = |i: &mut usize| -> Result<i64, String> {
        let v = i32::from_le_bytes([get(*i)?, get(*i + 1)?, get(*i + 2)?, get(*i + 3)?]) as i64;
        *i += 4;
        Ok(v)
    };
    let hb = |w: u8, r: u8| -> bool { w == 8 && !has_rex && (4..8).contains(&r) };
    let mut ins = Ins { len: 0, op: Op::Ret, w: 64, reg: 0, rm: Rm::Reg(0), imm: 0, high_byte: false };
    match opc {
        0x50..=0x57 => {
            ins.op = Op::Push;
            ins.rm = Rm::Reg((opc - 0x50) | (rex_b << 3));
        }
        0x58..=0x5f => {
            ins.op = Op::Pop;
            ins.rm = Rm::Reg((opc - 0x58) | (rex_b << 3));
        }
        0x00 | 0x01 | 0x28 | 0x29 | 0x38 | 0x39 => {
            let sub = opc >> 3;
            ins.w = width(opc & 1 == 0);
            let (r, rm) = modrm(&mut i)?;
            ins.op = Op::AluRmR(sub);
            ins.reg = r;
            ins.rm = rm;
            ins.high_byte = hb(ins.w, r) || matches!(rm, Rm::Reg(x) if hb(ins.w, x));
        }
        0x02 | 0x03 | 0x2a | 0x2b | 0x3a | 0x3b => {
            let sub = opc >> 3;
            ins.w = width(opc & 1 == 0);
            let (r, rm) = modrm(&mut i)?;
            ins.op = Op::AluRRm(sub);
            ins.reg = r;
            ins.rm = rm;
            ins.high_byte = hb(ins.w, r) || matches!(rm, Rm::Reg(x) if hb(ins.w, x));
        }
        0x80 | 0x81 | 0x83 => {
            ins.w = width(opc == 0x80);
            let (r, rm) = modrm(&mut i)?;
            let sub = r & 7;
            if !matches!(sub, 0 | 5 | 7) {
                return Err(format!("group-1 sub-opcode /{} is outside the emitted subset", sub));
            }
            ins.op = Op::AluRmImm(sub);
            ins.rm = rm;
            ins.imm = if opc == 0x81 {
                if ins.w == 16 {
                    imm16(&mut i)?
                } else {
                    imm32(&mut i)?
                }
            } else {
                imm8(&mut i)?
            };
            ins.high_byte = matches!(rm, Rm::Reg(x) if hb(ins.w, x));
        }
        0x69 | 0x6b => {
            ins.w = width(false);
            let (r, rm) = modrm(&mut i)?;
            ins.op = Op::ImulRRmImm;
            ins.reg = r;
            ins.rm = rm;
            ins.imm = if opc == 0x69 {
                if ins.w == 16 {
                    imm16(&mut i)?
                } else {
                    imm32(&mut i)?
                }
            } else {
                imm8(&mut i)?
            };
        }
        0x0f => {
            let o2 = get(i)?;
            i += 1;
            match o2 {
                0xaf => {
                    ins.w = width(false);
                    let (r, rm) = modrm(&mut i)?;
                    ins.op = Op::ImulRRm;
                    ins.reg = r;
                    ins.rm = rm;
                }
                0xb6 | 0xb7 => {
                    ins.w = width(false);
                    let (r, rm) = modrm(&mut i)?;
                    ins.op = Op::Movzx(if o2 == 0xb6 { 8 } else { 16 });
                    ins.reg = r;
                    ins.rm = rm;
                    ins.high_byte = o2 == 0xb6 && matches!(rm, Rm::Reg(x) if hb(8, x));
                }
                0x80..=0x8f => {
                    ins.op = Op::Jcc(o2 - 0x80);
                    ins.imm = imm32(&mut i)?;
                }
                _ => return Err(format!("two-byte opcode 0f {:02x} is outside the emitted subset", o2)),
            }
        }
        0xfe | 0xff => {
            ins.w = width(opc == 0xfe);
            let (r, rm) = modrm(&mut i)?;
            ins.rm = rm;
            match r & 7 {
                0 => ins.op = Op::Inc,
                1 => ins.op = Op::Dec,
                2 if opc == 0xff => {
                    ins.op = Op::CallRm;
                    ins.w = 64;
                }
                s => return Err(format!("group-5 sub-opcode /{} is outside the emitted subset", s)),
            }
            ins.high_byte = matches!(rm, Rm::Reg(x) if hb(ins.w, x));
        }
        0xc6 | 0xc7 => {
            ins.w = width(opc == 0xc6);
            let (r, rm) = modrm(&mut i)?;
            if r & 7 != 0 {
                return Err("c6/c7 with a non-zero sub-opcode".into());
            }
            ins.op = Op::MovRmImm;
            ins.rm = rm;
            ins.imm = if opc == 0xc6 {
                imm8(&mut i)?
            } else if ins.w == 16 {
                imm16(&mut i)?
            } else {
                imm32(&mut i)?
            };
            ins.high_byte = matches!(rm, Rm::Reg(x) if hb(ins.w, x));
        }
        0xb8..=0xbf => {
            ins.op = Op::MovRImm64;
            ins.rm = Rm::Reg((opc - 0xb8) | (rex_b << 3));
            if rex_w {
                ins.w = 64;
                let mut b = [0u8; 8];
                for k in 0..8 {
                    b[k] = get(i + k)?;
                }
                i += 8;
                ins.imm = i64::from_le_bytes(b);
            } else {
                ins.w = 32;
                ins.imm = imm32(&mut i)? as u32 as i64;
            }
        }
        0x88 | 0x89 => {
            ins.w = width(opc == 0x88);
            let (r, rm) = modrm(&mut i)?;
            ins.op = Op::MovRmR;
            ins.reg = r;
            ins.rm = rm;
            ins.high_byte = hb(ins.w, r) || matches!(rm, Rm::Reg(x) if hb(ins.w, x));
        }
        0x8a | 0x8b => {
            ins.w = width(opc == 0x8a);
            let (r, rm) = modrm(&mut i)?;
            ins.op = Op::MovRRm;
            ins.reg = r;
            ins.rm = rm;
            ins.high_byte = hb(ins.w, r) || matches!(rm, Rm::Reg(x) if hb(ins.w, x));
        }
        0x8d => {
            ins.w = width(false);
            let (r, rm) = modrm(&mut i)?;
            if matches!(rm, Rm::Reg(_)) {
                return Err("lea with a register operand".into());
            }
            ins.op = Op::Lea;
            ins.reg = r;
            ins.rm = rm;
        }
        0x84 | 0x85 => {
            ins.w = width(opc == 0x84);
            let (r, rm) = modrm(&mut i)?;
            ins.op = Op::TestRmR;
            ins.reg = r;
            ins.rm = rm;
            ins.high_byte = hb(ins.w, r) || matches!(rm, Rm::Reg(x) if hb(ins.w, x));
        }
        0xeb => {
            ins.op = Op::Jmp;
            ins.imm = imm8(&mut i)?;
        }
        0xe9 => {
            ins.op = Op::Jmp;
            ins.imm = imm32(&mut i)?;
        }
        0x70..=0x7f => {
            ins.op = Op::Jcc(opc - 0x70);
            ins.imm = imm8(&mut i)?;
        }
        0xc1 => {
            ins.w = width(false);
            let (r, rm) = modrm(&mut i)?;
            if r & 7 != 7 {
                return Err(format!("shift group sub-opcode /{} is outside the emitted subset", r & 7));
            }
            ins.op = Op::SarImm;
            ins.rm = rm;
            ins.imm = get(i)? as i64;
            i += 1;
        }
        0xc3 => ins.op = Op::Ret,
        _ => return Err(format!("opcode {:02x} at {:#x} is outside the subset the encoder is meant to emit", opc, at)),
    }
    ins.len = i - at;
    Ok(ins)
}

/// What the model needs from its environment (the shadow context and the I/O seam).
pub trait Env {
    /// Read one of the context words (byte offset 0, 8, 16, 24 from the context pointer).
    fn ctx_read(&mut self, off: u64) -> Result<T, String>;
    fn ctx_write(&mut self, off: u64, v: T) -> Result<(), String>;
    fn ctx_addr(&self) -> u64;
    /// Current tape allocation: (buffer address, size in cells).
    fn tape(&mut self) -> (u64, u64);
    fn cell_bytes(&self) -> u64;
    /// Perform the runtime call at `target`; returns Some(rax term) or None if the target is unknown.
    fn call(&mut self, target: u64, st: &mut State) -> Result<Option<T>, String>;
}

pub struct State {
    pub regs: [T; 16],
    pub zf: Option<Result<Lit, bool>>,
    pub cf: Option<Result<Lit, bool>>,
    /// stack slots by address (8-byte aligned)
    pub stack: HashMap<u64, T>,
    pub entry_rsp: u64,
    pub frame_lo: u64,
    /// tape overlay: absolute cell index in the current buffer -> term of cell width
    pub tape: HashMap<i64, T>,
    pub steps: u64,
    pub events_hook: Vec<Event>,
    /// stop (without executing it) when the program counter reaches this offset
    pub stop_at: Option<usize>,
}

pub const RAX: usize = 0;
pub const RCX: usize = 1;
pub const RDX: usize = 2;
pub const RBX: usize = 3;
pub const RSP: usize = 4;
pub const RBP: usize = 5;
pub const RSI: usize = 6;
pub const RDI: usize = 7;

#[derive(Debug)]
pub enum Exit {
    Ret(T),
    Fault(String),
    StepCap,
    /// execution reached the requested stop address
    Stopped,
}

fn konst(w: u8, v: u64) -> T {
    with(|c| c.ar.konst(w, v))
}

fn as_const(t: T) -> Option<u64> {
    with(|c| c.ar.as_const(t))
}

impl State {
    pub fn new(entry_rsp: u64) -> State {
        let mut regs = [0; 16];
        for r in regs.iter_mut() {
            *r = with(|c| c.ar.fresh(64));
        }
        regs[RSP] = konst(64, entry_rsp);
        State { regs, zf: None, cf: None, stack: HashMap::new(), entry_rsp, frame_lo: entry_rsp, tape: HashMap::new(), steps: 0, events_hook: vec![], stop_at: None }
    }

    fn reg_read(&self, r: u8, w: u8) -> T {
        let v = self.regs[r as usize];
        if w == 64 {
            v
        } else {
            with(|c| c.ar.trunc(w, v, 64))
        }
    }

    fn reg_write(&mut self, r: u8, w: u8, v: T) {
        let old = self.regs[r as usize];
        self.regs[r as usize] = match w {
            64 => v,
            32 => with(|c| c.ar.zext(64, v, 32)),
            _ => with(|c| {
                let hi = c.ar.extract(64 - w, old, 64, w);
                c.ar.concat(64, hi, v, w)
            }),
        };
    }

    fn addr(&self, rm: &Rm) -> Result<u64, String> {
        if let Rm::Mem { base, idx, scale, disp } = rm {
            let mut a = *disp as i64 as u64;
            if let Some(b) = base {
                a = a.wrapping_add(as_const(self.regs[*b as usize]).ok_or_else(|| format!("memory operand with a non-concrete base register r{}", b))?);
            }
            if let Some(x) = idx {
                let v = as_const(self.regs[*x as usize]).ok_or_else(|| format!("memory operand with a non-concrete index register r{}", x))?;
                a = a.wrapping_add(v.wrapping_mul(*scale as u64));
            }
            Ok(a)
        } else {
            Err("not a memory operand".into())
        }
    }

    fn mem_read(&mut self, env: &mut dyn Env, a: u64, w: u8) -> Result<T, String> {
        let bytes = (w / 8) as u64;
        // stack?
        if a >= self.frame_lo && a + bytes <= self.entry_rsp {
            if w != 64 || a % 8 != 0 {
                return Err(format!("stack access of {} bits at {:#x} is not an aligned 8-byte slot", w, a));
            }
            let v = match self.stack.get(&a) {
                Some(v) => *v,
                None => {
                    let f = with(|c| c.ar.fresh(64));
                    self.stack.insert(a, f);
                    f
                }
            };
            return Ok(v);
        }
        let ca = env.ctx_addr();
        if a >= ca && a + bytes <= ca + 32 {
            if w != 64 || (a - ca) % 8 != 0 {
                return Err(format!("context access of {} bits at offset {}", w, a - ca));
            }
            return env.ctx_read(a - ca);
        }
        let (buf, size) = env.tape();
        let cb = env.cell_bytes();
        if a >= buf && a + bytes <= buf + size * cb {
            if bytes != cb || (a - buf) % cb != 0 {
                return Err(format!("tape access of {} bits at byte offset {} does not match the {}-byte cells", w, a - buf, cb));
            }
            let idx = ((a - buf) / cb) as i64;
            return Ok(*self.tape.get(&idx).unwrap_or(&0));
        }
        Err(format!("read of {} bits at {:#x} is outside the tape allocation [{:#x}, {:#x}), the stack frame and the context", w, a, buf, buf + size * cb))
    }

    fn mem_write(&mut self, env: &mut dyn Env, a: u64, w: u8, v: T) -> Result<(), String> {
        let bytes = (w / 8) as u64;
        if a >= self.frame_lo && a + bytes <= self.entry_rsp {
            if w != 64 || a % 8 != 0 {
                return Err(format!("stack access of {} bits at {:#x} is not an aligned 8-byte slot", w, a));
            }
            self.stack.insert(a, v);
            return Ok(());
        }
        let ca = env.ctx_addr();
        if a >= ca && a + bytes <= ca + 32 {
            if w != 64 || (a - ca) % 8 != 0 {
                return Err(format!("context access of {} bits at offset {}", w, a - ca));
            }
            return env.ctx_write(a - ca, v);
        }
        let (buf, size) = env.tape();
        let cb = env.cell_bytes();
        if a >= buf && a + bytes <= buf + size * cb {
            if bytes != cb || (a - buf) % cb != 0 {
                return Err(format!("tape access of {} bits at byte offset {} does not match the {}-byte cells", w, a - buf, cb));
            }
            let idx = ((a - buf) / cb) as i64;
            if v == 0 {
                self.tape.remove(&idx);
            } else {
                self.tape.insert(idx, v);
            }
            return Ok(());
        }
        Err(format!("write of {} bits at {:#x} is outside the tape allocation [{:#x}, {:#x}), the stack frame and the context", w, a, buf, buf + size * cb))
    }

    fn rm_read(&mut self, env: &mut dyn Env, rm: &Rm, w: u8) -> Result<T, String> {
        match rm {
            Rm::Reg(r) => Ok(self.reg_read(*r, w)),
            m => {
                let a = self.addr(m)?;
                self.mem_read(env, a, w)
            }
        }
    }

    fn rm_write(&mut self, env: &mut dyn Env, rm: &Rm, w: u8, v: T) -> Result<(), String> {
        match rm {
            Rm::Reg(r) => {
                self.reg_write(*r, w, v);
                Ok(())
            }
            m => {
                let a = self.addr(m)?;
                self.mem_write(env, a, w, v)
            }
        }
    }

    fn set_flags_result(&mut self, w: u8, res: T, cf: Option<Result<Lit, bool>>) {
        self.zf = Some(with(|c| c.ar.eq_lit(w, res, 0)));
        self.cf = cf;
    }

    fn alu(&mut self, sub: u8, w: u8, a: T, b: T) -> Option<T> {
        match sub {
            0 => {
                let r = with(|c| c.ar.add(w, a, b));
                let cf = with(|c| c.ar.ult_lit(w, r, a));
                self.set_flags_result(w, r, Some(cf));
                Some(r)
            }
            5 => {
                let r = with(|c| c.ar.sub(w, a, b));
                let cf = with(|c| c.ar.ult_lit(w, a, b));
                self.set_flags_result(w, r, Some(cf));
                Some(r)
            }
            _ => {
                // cmp
                self.zf = Some(with(|c| c.ar.eq_lit(w, a, b)));
                self.cf = Some(with(|c| c.ar.ult_lit(w, a, b)));
                None
            }
        }
    }

    fn cond(&mut self, cc: u8) -> Result<bool, String> {
        let (which, neg) = match cc {
            2 => (1, false), // b  : CF
            3 => (1, true),  // ae
            4 => (0, false), // e  : ZF
            5 => (0, true),  // ne
            _ => return Err(format!("condition code {:x} is outside the emitted subset (b, e, ne)", cc)),
        };
        let f = if which == 0 { self.zf } else { self.cf };
        let f = f.ok_or("conditional jump on undefined flags")?;
        let v = decide(f);
        Ok(v != neg)
    }

    /// Execute from `pc` until `ret`, a fault or the step cap.
    pub fn run(&mut self, code: &[u8], env: &mut dyn Env, max_steps: u64, check_call_alignment: bool) -> Exit {
        let mut pc = 0usize;
        loop {
            if self.stop_at == Some(pc) {
                return Exit::Stopped;
            }
            self.steps += 1;
            if self.steps > max_steps {
                return Exit::StepCap;
            }
            engine::count_op();
            let ins = match decode(code, pc) {
                Ok(i) => i,
                Err(e) => return Exit::Fault(format!("decoder: {}", e)),
            };
            if ins.high_byte {
                return Exit::Fault(format!("instruction at {:#x} addresses AH/CH/DH/BH (8-bit operand r4..r7 without REX)", pc));
            }
            let next = pc + ins.len;
            let r = self.step(&ins, env, next, code.len(), check_call_alignment);
            match r {
                Err(e) => return Exit::Fault(format!("at {:#x} ({:?}): {}", pc, ins.op, e)),
                Ok(Step::Next) => pc = next,
                Ok(Step::Goto(t)) => pc = t,
                Ok(Step::Ret) => return Exit::Ret(self.regs[RAX]),
            }
        }
    }

    fn step(&mut self, ins: &Ins, env: &mut dyn Env, next: usize, code_len: usize, check_align: bool) -> Result<Step, String> {
        let w = ins.w;
        match ins.op {
            Op::Push => {
                let Rm::Reg(r) = ins.rm else { unreachable!() };
                let sp = as_const(self.regs[RSP]).ok_or("symbolic rsp")?.wrapping_sub(8);
                if sp < self.frame_lo {
                    self.frame_lo = sp;
                }
                self.regs[RSP] = konst(64, sp);
                let v = self.regs[r as usize];
                self.stack.insert(sp, v);
            }
            Op::Pop => {
                let Rm::Reg(r) = ins.rm else { unreachable!() };
                let sp = as_const(self.regs[RSP]).ok_or("symbolic rsp")?;
                if sp + 8 > self.entry_rsp {
                    return Err("pop reads above the frame".into());
                }
                let v = self.mem_read(env, sp, 64)?;
                self.regs[r as usize] = v;
                self.regs[RSP] = konst(64, sp + 8);
            }
            Op::AluRmR(sub) => {
                let a = self.rm_read(env, &ins.rm, w)?;
                let b = self.reg_read(ins.reg, w);
                if let Some(r) = self.alu(sub, w, a, b) {
                    self.rm_write(env, &ins.rm, w, r)?;
                }
                self.track_rsp()?;
            }
            Op::AluRRm(sub) => {
                let a = self.reg_read(ins.reg, w);
                let b = self.rm_read(env, &ins.rm, w)?;
                if let Some(r) = self.alu(sub, w, a, b) {
                    self.reg_write(ins.reg, w, r);
                }
                self.track_rsp()?;
            }
            Op::AluRmImm(sub) => {
                let a = self.rm_read(env, &ins.rm, w)?;
                let b = konst(w, ins.imm as u64);
                if let Some(r) = self.alu(sub, w, a, b) {
                    self.rm_write(env, &ins.rm, w, r)?;
                }
                self.track_rsp()?;
            }
            Op::ImulRRmImm => {
                let a = self.rm_read(env, &ins.rm, w)?;
                let b = konst(w, ins.imm as u64);
                let r = with(|c| c.ar.mul(w, a, b));
                self.reg_write(ins.reg, w, r);
                self.zf = None;
                self.cf = None;
            }
            Op::ImulRRm => {
                let a = self.reg_read(ins.reg, w);
                let b = self.rm_read(env, &ins.rm, w)?;
                let r = with(|c| c.ar.mul(w, a, b));
                self.reg_write(ins.reg, w, r);
                self.zf = None;
                self.cf = None;
            }
            Op::Inc | Op::Dec => {
                let a = self.rm_read(env, &ins.rm, w)?;
                let one = konst(w, if ins.op == Op::Inc { 1 } else { u64::MAX });
                let r = with(|c| c.ar.add(w, a, one));
                self.rm_write(env, &ins.rm, w, r)?;
                let cf = self.cf; // inc/dec leave CF unchanged
                self.set_flags_result(w, r, cf);
                self.track_rsp()?;
            }
            Op::CallRm => {
                let t = self.rm_read(env, &ins.rm, 64)?;
                let target = as_const(t).ok_or("indirect call through a symbolic value")?;
                let sp = as_const(self.regs[RSP]).ok_or("symbolic rsp")?;
                if check_align && sp % 16 != 0 {
                    return Err(format!("stack pointer {:#x} is not 16-byte aligned at a runtime call", sp));
                }
                let rax = env.call(target, self)?.ok_or_else(|| format!("call to {:#x}, which is none of the three runtime entry points", target))?;
                // SysV: caller-saved registers are dead after the call
                for r in [RCX, RDX, RSI, RDI, 8, 9, 10, 11] {
                    self.regs[r] = with(|c| c.ar.fresh(64));
                }
                self.regs[RAX] = rax;
                self.zf = None;
                self.cf = None;
            }
            Op::MovRmImm => {
                let v = konst(w, ins.imm as u64);
                // c7 with REX.W sign-extends imm32 to 64 bits; to a 32-bit register it zero-extends (reg_write)
                self.rm_write(env, &ins.rm, w, v)?;
                self.track_rsp()?;
            }
            Op::MovRImm64 => {
                let Rm::Reg(r) = ins.rm else { unreachable!() };
                let v = konst(w, ins.imm as u64);
                self.reg_write(r, w, v);
            }
            Op::MovRRm => {
                let v = self.rm_read(env, &ins.rm, w)?;
                self.reg_write(ins.reg, w, v);
                self.track_rsp()?;
            }
            Op::MovRmR => {
                let v = self.reg_read(ins.reg, w);
                self.rm_write(env, &ins.rm, w, v)?;
                self.track_rsp()?;
            }
            Op::Movzx(sw) => {
                let v = self.rm_read(env, &ins.rm, sw)?;
                let z = with(|c| c.ar.zext(w, v, sw));
                self.reg_write(ins.reg, w, z);
            }
            Op::Lea => {
                // address arithmetic only (no access): symbolic operands are fine
                let Rm::Mem { base, idx, scale, disp } = ins.rm else { unreachable!() };
                let mut v = konst(64, disp as i64 as u64);
                if let Some(b) = base {
                    let r = self.regs[b as usize];
                    v = with(|c| c.ar.add(64, v, r));
                }
                if let Some(x) = idx {
                    let r = self.regs[x as usize];
                    v = with(|c| {
                        let s = c.ar.scale(64, r, scale as u64);
                        c.ar.add(64, v, s)
                    });
                }
                let v = if w == 64 { v } else { with(|c| c.ar.trunc(w, v, 64)) };
                self.reg_write(ins.reg, w, v);
            }
            Op::TestRmR => {
                let a = self.rm_read(env, &ins.rm, w)?;
                let b = self.reg_read(ins.reg, w);
                let r = with(|c| c.ar.and(w, a, b));
                self.set_flags_result(w, r, Some(Err(false)));
            }
            Op::Jmp => {
                let t = next as i64 + ins.imm;
                if t < 0 || t as usize >= code_len {
                    return Err(format!("jump target {:#x} outside the code", t));
                }
                return Ok(Step::Goto(t as usize));
            }
            Op::Jcc(cc) => {
                let t = next as i64 + ins.imm;
                if t < 0 || t as usize >= code_len {
                    return Err(format!("jump target {:#x} outside the code", t));
                }
                if self.cond(cc)? {
                    return Ok(Step::Goto(t as usize));
                }
            }
            Op::SarImm => {
                let a = self.rm_read(env, &ins.rm, w)?;
                let r = with(|c| c.ar.ashr(w, a, ins.imm as u32));
                self.rm_write(env, &ins.rm, w, r)?;
                self.zf = None;
                self.cf = None;
            }
            Op::Ret => {
                let sp = as_const(self.regs[RSP]).ok_or("symbolic rsp")?;
                if sp != self.entry_rsp {
                    return Err(format!("ret with rsp = entry rsp {:+}", sp as i64 - self.entry_rsp as i64));
                }
                return Ok(Step::Ret);
            }
        }
        let _ = next;
        Ok(Step::Next)
    }

    fn track_rsp(&mut self) -> Result<(), String> {
        let sp = as_const(self.regs[RSP]).ok_or("rsp became symbolic")?;
        if sp > self.entry_rsp {
            return Err("rsp moved above its entry value".into());
        }
        if sp < self.frame_lo {
            self.frame_lo = sp;
        }
        Ok(())
    }
}

enum Step {
    Next,
    Goto(usize),
    Ret,
}

/// Render the decoded instruction stream (for objdump cross-checks and diagnostics).
pub fn disassemble(code: &[u8]) -> Result<Vec<(usize, Ins)>, String> {
    let mut v = Vec::new();
    let mut pc = 0;
    while pc < code.len() {
        let i = decode(code, pc)?;
        v.push((pc, i));
        pc += i.len;
    }
    Ok(v)
}
