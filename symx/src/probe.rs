//! C03 (c) / C06 (b): the JIT's pointer-move sequence with **symbolic tape geometry**.
//!
//! The machine code of a one-instruction bytecode program `[Mov(shift)]` (hook
//! `verif_from_bytecode`) is run in the x86 model up to the start of the epilogue with the
//! context words buffer / size symbolic and the incoming tape pointer symbolic.  `extend` is
//! replaced by its contract (what `make_accessible(0,1)` guarantees, established for all
//! geometries by the E5 lemmas): a new block that contains the probed cell, the recorded
//! offset re-based by the cells added below.  Decided by the solver for all geometries within
//! the stated preconditions:
//!   * fast path (no call): the probed cell `ptr + probe` lies inside the allocation;
//!   * slow path: after re-basing, `rbp` denotes the same logical cell as before and the
//!     probed cell lies inside the new allocation;
//!   * the move itself: `rbp' = rbp + shift*w` on the fast path.

use crate::engine::{self, explore, feasible, with, HashMode, IoCfg, Limits, PathEnd};
use crate::solver::{Answer, Kind, Stats};
use crate::term::{Lit, Witness, T};
use crate::x86::{Env, Exit, State, RBP, RDI, RDX, RSI};
use hpbf::bc::{Instr, Loc, Program};
use hpbf::exec::{BaseJitCompiler, BcInterpreter, Executable};
use hpbf::runtime::Context;
use hpbf::CellType;
use serde_json::{json, Value};

const CTX_ADDR: u64 = 0x0000_6000_0000_1000;
const ENTRY_RSP: u64 = 0x0000_7ff0_0000_0008;

struct ProbeEnv {
    w: u8,
    buffer: T,
    size: T,
    offset: T,
    budget: T,
    old_size: T,
    entry_extend: usize,
    /// set when extend was called: (argument min, argument max, recorded offset at the call)
    called: Option<(T, T, T)>,
    /// the state after extend: (buffer', size', added_below)
    after: Option<(T, T, T)>,
}

impl Env for ProbeEnv {
    fn ctx_read(&mut self, off: u64) -> Result<T, String> {
        Ok(match off {
            0 => self.buffer,
            8 => self.size,
            16 => self.offset,
            _ => self.budget,
        })
    }
    fn ctx_write(&mut self, off: u64, v: T) -> Result<(), String> {
        match off {
            16 => self.offset = v,
            24 => self.budget = v,
            _ => return Err(format!("generated code writes the context word at offset {}", off)),
        }
        Ok(())
    }
    fn ctx_addr(&self) -> u64 {
        CTX_ADDR
    }
    fn tape(&mut self) -> (u64, u64) {
        // no concrete tape: the lemma program never touches a cell
        (0, 0)
    }
    fn cell_bytes(&self) -> u64 {
        (self.w / 8) as u64
    }
    fn call(&mut self, target: u64, st: &mut State) -> Result<Option<T>, String> {
        if target as usize != self.entry_extend {
            return Ok(None);
        }
        let rdi = with(|c| c.ar.as_const(st.regs[RDI]));
        if rdi != Some(CTX_ADDR) {
            return Err("extend called without the context pointer".into());
        }
        if self.called.is_some() {
            return Err("extend called twice in one move".into());
        }
        self.called = Some((st.regs[RSI], st.regs[RDX], self.offset));
        // contract of make_accessible (E5 L1): fresh block, offset re-based by added_below
        let (nb, ns, added) = with(|c| (c.ar.var(64, 1001), c.ar.var(64, 1002), c.ar.var(64, 1003)));
        self.after = Some((nb, ns, added));
        self.buffer = nb;
        self.size = ns;
        let off = self.offset;
        let new_off = with(|c| c.ar.add(64, off, added));
        self.offset = new_off;
        // what make_accessible(0, 1) guarantees (E5 lemmas L1/L2): a real block that keeps the old
        // cells at `added` and contains the cell at the re-based offset
        let two60 = with(|c| c.ar.konst(64, 1 << 60));
        let two62 = with(|c| c.ar.konst(64, 1 << 62));
        let room = with(|c| c.ar.sub(64, ns, added));
        let old_size = self.old_size;
        let ok = assume(with(|c| c.ar.ult_lit(64, ns, two60)), true)
            && assume(with(|c| c.ar.ult_lit(64, nb, two62)), true)
            && assume(with(|c| c.ar.ult_lit(64, new_off, ns)), true)
            && assume(with(|c| c.ar.ult_lit(64, ns, added)), false)
            && assume(with(|c| c.ar.ult_lit(64, room, old_size)), false);
        if !ok {
            return Err("the contract of extend is trivially false here".into());
        }
        refresh_witness()?;
        Ok(Some(with(|c| c.ar.fresh(64))))
    }
}

thread_local! {
    static SMALL_LIMIT: std::cell::Cell<u64> = std::cell::Cell::new(4096);
    static PROPERTY: std::cell::Cell<&'static str> = std::cell::Cell::new("C03");
}

#[derive(Default)]
pub struct Out {
    pub lemmas: u64,
    pub discharged: u64,
    pub undecided: Vec<String>,
    pub failing: Vec<Value>,
    pub failing_confirmed_natively: u64,
    pub stats: Stats,
    pub configurations: u64,
    pub total_configurations: u64,
}

fn assume(l: Result<Lit, bool>, pos: bool) -> bool {
    match l {
        Err(b) => b == pos,
        Ok(l) => {
            let l = if pos { l } else { l.not() };
            with(|c| {
                c.path.push(l);
                c.known.insert(l.atom, l.pos);
            });
            true
        }
    }
}

/// Make the concolic witness satisfy the assumed literals (asks the solver when it does not).
fn refresh_witness() -> Result<(), String> {
    let good = with(|c| {
        let path = c.path.clone();
        let wit = c.wit.clone();
        path.iter().all(|l| c.ar.eval_atom(l.atom, &wit) == l.pos)
    });
    if good {
        return Ok(());
    }
    let mut m = Witness::default();
    match feasible(&[], Some(&mut m)) {
        Answer::Sat => {
            with(|c| {
                for (k, v) in &c.wit.frees {
                    m.frees.entry(*k).or_insert(*v);
                }
                c.wit = m;
                c.ar.new_eval_epoch();
            });
            Ok(())
        }
        Answer::Unsat => Err("the assumptions are unsatisfiable (vacuous lemma)".into()),
        Answer::Unknown(s) => Err(format!("solver answered '{}' on the assumptions", s)),
    }
}

/// The geometry of a counterexample: (size in cells, index of the pointer's cell in the block).
fn geometry(m: &Witness, wb: u64) -> (u64, i64) {
    let g = |k: u32| m.vars.get(&k).copied().unwrap_or(0);
    (g(2), (g(3).wrapping_sub(g(1)) as i64) / wb as i64)
}

type Obs = (String, Option<bool>, String, Option<(u64, i64)>);

fn must_hold(name: &str, goal: Result<Lit, bool>, pos: bool, wb: u64, out: &mut Vec<Obs>) {
    // goal literal must be implied by the path: path and not goal is unsat
    let t0 = std::time::Instant::now();
    let trace = std::env::var("SYMX_TRACE_PROBE").is_ok();
    if trace {
        eprintln!("[probe] {} ...", name);
    }
    match goal {
        Err(b) if b == pos => out.push((name.to_string(), Some(true), String::new(), None)),
        Err(_) => {
            // false on every geometry of this path: any model of the path is a counterexample
            let small = with(|c| {
                let size = c.ar.var(64, 2);
                let lim = c.ar.konst(64, SMALL_LIMIT.with(|l| l.get()));
                c.ar.ult_lit(64, size, lim)
            });
            let mut m = Witness::default();
            let got = match small {
                Ok(sl) if feasible(&[sl], Some(&mut m)) == Answer::Sat => true,
                _ => feasible(&[], Some(&mut m)) == Answer::Sat,
            };
            let geo = if got { Some(geometry(&m, wb)) } else { None };
            out.push((name.to_string(), Some(false), "false for every geometry on this path".to_string(), geo))
        }
        Ok(l) => {
            let neg = if pos { l.not() } else { l };
            let mut m = Witness::default();
            match feasible(&[neg], Some(&mut m)) {
                Answer::Unsat => out.push((name.to_string(), Some(true), String::new(), None)),
                Answer::Sat => {
                    // prefer a counterexample small enough to rebuild natively
                    let small = with(|c| {
                        let size = c.ar.var(64, 2);
                        let lim = c.ar.konst(64, SMALL_LIMIT.with(|l| l.get()));
                        c.ar.ult_lit(64, size, lim)
                    });
                    if let Ok(sl) = small {
                        let mut m2 = Witness::default();
                        if feasible(&[neg, sl], Some(&mut m2)) == Answer::Sat {
                            m = m2;
                        }
                    }
                    let geo = geometry(&m, wb);
                    let mut v: Vec<(u32, u64)> = m.vars.into_iter().filter(|(k, _)| *k < 5 || *k >= 1000).collect();
                    v.sort();
                    out.push((name.to_string(), Some(false), format!("model {:x?}", v), Some(geo)))
                }
                Answer::Unknown(s) => out.push((name.to_string(), None, s, None)),
            }
        }
    }
    if trace {
        eprintln!("[probe]   -> {:?} in {:.2}s", out.last().map(|x| x.1), t0.elapsed().as_secs_f64());
    }
}

/// The bytecode used for the native confirmation: the move, then a store to each end of the window.
fn confirm_program<C: CellType>(shift: isize, min_acc: isize, max_acc: isize, scan: Option<isize>) -> Program<C> {
    let first = match scan {
        Some(cond) => Instr::Scan(cond, shift),
        None => Instr::Mov(shift),
    };
    let insts = vec![first, Instr::Copy(Loc::Mem(min_acc), Loc::Imm(C::from_u64(0x5a))), Instr::Copy(Loc::Mem(max_acc), Loc::Imm(C::from_u64(0x3c)))];
    Program { temps: 0, min_accessed: min_acc, max_accessed: max_acc, live: vec![0; insts.len()], insts }
}

fn fill(i: u64) -> u64 {
    ((i * 7 + 3) % 251) | 1
}

/// Native run from the given geometry: a block of `size` cells, the pointer on cell `k`.
/// Returns the non-zero cells as (position relative to the first non-zero cell, value) pairs.
fn native_run<C: CellType>(jit: bool, shift: isize, min_acc: isize, max_acc: isize, size: u64, k: i64) -> Vec<u64> {
    native_run_scan::<C>(jit, shift, min_acc, max_acc, size, k, None)
}

/// What the bytecode `[Mov/Scan; store at min; store at max]` must leave on an unbounded tape.
fn reference_run(bits: u32, shift: isize, min_acc: isize, max_acc: isize, size: u64, k: i64, scan: Option<isize>) -> Vec<u64> {
    let m = crate::term::mask(bits as u8);
    let mut tape: std::collections::BTreeMap<i64, u64> = (0..size as i64).map(|i| (i, fill(i as u64) & m)).collect();
    let mut p = k;
    match scan {
        None => p += shift as i64,
        Some(c) => {
            let mut n = 0;
            while tape.get(&(p + c as i64)).copied().unwrap_or(0) != 0 && n < 10_000_000 {
                p += shift as i64;
                n += 1;
            }
        }
    }
    tape.insert(p + min_acc as i64, 0x5a);
    tape.insert(p + max_acc as i64, 0x3c);
    let mut v = Vec::new();
    let mut first = None;
    for (i, x) in tape {
        if x != 0 {
            let f = *first.get_or_insert(i);
            v.push((i - f) as u64);
            v.push(x);
        }
    }
    v
}

/// Static-mode replay (L6): block of 64 cells, cells 16..48 filled, pointer on cell 32, `execute_unsafe`.
fn native_run_unchecked<C: CellType>(shift: isize, min_acc: isize, max_acc: isize, scan: Option<isize>) -> Vec<u64> {
    let mut cxt = Context::<C>::without_io();
    cxt.memory.make_accessible(0, 64);
    for i in 16..48u64 {
        cxt.memory.write(i as isize, C::from_u64(fill(i)));
    }
    cxt.memory.mov(32);
    let e = BcInterpreter::<C>::verif_from_bytecode(confirm_program::<C>(shift, min_acc, max_acc, scan));
    let _ = unsafe { e.execute_unsafe(&mut cxt) };
    let mut v: Vec<u64> = Vec::new();
    let mut first: Option<isize> = None;
    for j in -256..256isize {
        let x = cxt.memory.read(j).into_u64();
        if x != 0 {
            let f = *first.get_or_insert(j);
            v.push((j - f) as u64);
            v.push(x);
        }
    }
    v
}

fn reference_unchecked(bits: u32, shift: isize, min_acc: isize, max_acc: isize, scan: Option<isize>) -> Vec<u64> {
    let m = crate::term::mask(bits as u8);
    let mut tape: std::collections::BTreeMap<i64, u64> = (16..48i64).map(|i| (i, fill(i as u64) & m)).collect();
    let mut p = 32i64;
    match scan {
        None => p += shift as i64,
        Some(c) => {
            let mut n = 0;
            while tape.get(&(p + c as i64)).copied().unwrap_or(0) != 0 && n < 1000 {
                p += shift as i64;
                n += 1;
            }
        }
    }
    tape.insert(p + min_acc as i64, 0x5a);
    tape.insert(p + max_acc as i64, 0x3c);
    let mut v = Vec::new();
    let mut first = None;
    for (i, x) in tape {
        if x != 0 {
            let f = *first.get_or_insert(i);
            v.push((i - f) as u64);
            v.push(x);
        }
    }
    v
}

fn native_run_scan<C: CellType>(jit: bool, shift: isize, min_acc: isize, max_acc: isize, size: u64, k: i64, scan: Option<isize>) -> Vec<u64> {
    let mut cxt = Context::<C>::without_io();
    cxt.memory.make_accessible(0, size as isize);
    for i in 0..size {
        cxt.memory.write(i as isize, C::from_u64(fill(i)));
    }
    cxt.memory.mov(k as isize);
    if jit {
        let e = BaseJitCompiler::<C>::verif_from_bytecode(confirm_program::<C>(shift, min_acc, max_acc, scan));
        let _ = e.execute(&mut cxt);
    } else {
        let e = BcInterpreter::<C>::verif_from_bytecode(confirm_program::<C>(shift, min_acc, max_acc, scan));
        let _ = e.execute(&mut cxt);
    }
    // the JIT does not write its pointer back: compare the tapes up to translation
    // (non-zero cells, positions relative to the first of them)
    let span = (3 * size as isize + 2 * shift.abs() + 2 * (max_acc - min_acc) + 64) * if scan.is_some() { 4 } else { 1 };
    let mut v: Vec<u64> = Vec::new();
    let mut first: Option<isize> = None;
    for j in -span..span {
        let x = cxt.memory.read(j).into_u64();
        if x != 0 {
            let f = *first.get_or_insert(j);
            v.push((j - f) as u64);
            v.push(x);
        }
    }
    v
}

pub fn replay(v: &Value) -> i32 {
    let g = |k: &str| v[k].as_i64().unwrap_or(0);
    let (shift, mn, mx, size, k) = (g("shift") as isize, g("min") as isize, g("max") as isize, g("size") as u64, g("k"));
    if v["engine"].as_str() == Some("bcint-unchecked") {
        // static mode: plain pointer arithmetic inside a pre-grown region, guard pages on both placements
        let scan = v["scan_cond"].as_i64().map(|c| c as isize);
        let bits = g("width") as u32;
        if shift == 0 || shift.abs() > 8 || mn < -8 || mx > 8 || scan.map_or(false, |c| c.abs() > 4) {
            println!("NOT-REPRODUCED: configuration outside what the static-mode replay rebuilds");
            return 0;
        }
        let want = reference_unchecked(bits, shift, mn, mx, scan);
        for mode in [1u8, 2u8] {
            crate::guard::set_case(&v.to_string());
            crate::guard::set_mode(mode);
            let got = match bits {
                8 => native_run_unchecked::<u8>(shift, mn, mx, scan),
                16 => native_run_unchecked::<u16>(shift, mn, mx, scan),
                32 => native_run_unchecked::<u32>(shift, mn, mx, scan),
                _ => native_run_unchecked::<u64>(shift, mn, mx, scan),
            };
            crate::guard::set_mode(0);
            if got != want {
                println!("REPRODUCED property={} bytecode interpreter in static mode, {} by {} (condition offset {:?}) with window [{}, {}] at {} bits: tape differs from the unbounded-tape reading (non-zero cells {} / {})", v["property"].as_str().unwrap_or("C10"), if scan.is_some() { "scan" } else { "move" }, shift, scan, mn, mx, bits, got.len() / 2, want.len() / 2);
                return 1;
            }
        }
        println!("NOT-REPRODUCED: the bytecode interpreter in static mode leaves the tape of the unbounded-tape reading");
        return 0;
    }
    let far = is_far(g("width") as u32, shift, mn, mx);
    let _ = far;
    if size == 0 || size > 4096 + (mx - mn) as u64 || k + (mn as i64) < 0 || k + (mx as i64) >= size as i64 {
        println!("NOT-REPRODUCED: geometry outside what the native confirmation rebuilds");
        return 0;
    }
    if v["engine"].as_str() == Some("bcint") {
        // the bytecode interpreter against the unbounded-tape reading, block flush against a guard page on either side
        let scan = v["scan_cond"].as_i64().map(|c| c as isize);
        let bits = g("width") as u32;
        let want = reference_run(bits, shift, mn, mx, size, k, scan);
        for mode in [1u8, 2u8] {
            crate::guard::set_case(&v.to_string());
            crate::guard::set_mode(mode);
            let got = match bits {
                8 => native_run_scan::<u8>(false, shift, mn, mx, size, k, scan),
                16 => native_run_scan::<u16>(false, shift, mn, mx, size, k, scan),
                32 => native_run_scan::<u32>(false, shift, mn, mx, size, k, scan),
                _ => native_run_scan::<u64>(false, shift, mn, mx, size, k, scan),
            };
            crate::guard::set_mode(0);
            if got != want {
                let at = got.iter().zip(want.iter()).position(|(x, y)| x != y).unwrap_or(got.len().min(want.len()));
                println!("REPRODUCED property={} bytecode interpreter, {} by {} with window [{}, {}] at {} bits from a block of {} cells, pointer on cell {}: tape differs from the unbounded-tape reading (non-zero cells {} / {}, first difference at entry {})", v["property"].as_str().unwrap_or("C06"), if scan.is_some() { "scan" } else { "move" }, shift, mn, mx, bits, size, k, got.len() / 2, want.len() / 2, at / 2);
                return 1;
            }
        }
        println!("NOT-REPRODUCED: the bytecode interpreter leaves the tape of the unbounded-tape reading");
        return 0;
    }
    fn both<C: CellType>(shift: isize, mn: isize, mx: isize, size: u64, k: i64) -> (Vec<u64>, Vec<u64>) {
        // the oracle first: a death after this line is the JIT's
        let b = native_run::<C>(false, shift, mn, mx, size, k);
        println!("ORACLE-DONE");
        use std::io::Write;
        let _ = std::io::stdout().flush();
        (native_run::<C>(true, shift, mn, mx, size, k), b)
    }
    let (a, b) = match g("width") {
        8 => both::<u8>(shift, mn, mx, size, k),
        16 => both::<u16>(shift, mn, mx, size, k),
        32 => both::<u32>(shift, mn, mx, size, k),
        _ => both::<u64>(shift, mn, mx, size, k),
    };
    if a != b {
        let at = a.iter().zip(b.iter()).position(|(x, y)| x != y).unwrap_or(a.len().min(b.len()));
        println!("REPRODUCED property={} pointer move by {} with window [{}, {}] at {} bits from a block of {} cells, pointer on cell {}: JIT and bytecode interpreter tapes differ (non-zero cells {} / {}, first difference at entry {})", v["property"].as_str().unwrap_or("C03"), shift, mn, mx, g("width"), size, k, a.len() / 2, b.len() / 2, at / 2);
        1
    } else {
        println!("NOT-REPRODUCED: the JIT and the bytecode interpreter leave the same tape");
        0
    }
}

/// Run the native confirmation in a child process (an out-of-bounds access dies on a guard page).
fn confirm_child(v: &Value) -> Option<String> {
    use std::io::Read;
    let dir = format!("{}/replays", crate::report::verif_root());
    let _ = std::fs::create_dir_all(&dir);
    let path = format!("{}/probe-{}-{}.json", dir, std::process::id(), v["id"].as_u64().unwrap_or(0));
    std::fs::write(&path, serde_json::to_string_pretty(v).unwrap()).ok()?;
    let exe = std::env::current_exe().ok()?;
    let mut child = std::process::Command::new(exe).arg("replay").arg(&path).stdout(std::process::Stdio::piped()).stderr(std::process::Stdio::null()).spawn().ok()?;
    let t0 = std::time::Instant::now();
    let st = loop {
        match child.try_wait() {
            Ok(Some(st)) => break Some(st),
            Ok(None) if t0.elapsed().as_secs() > if v["far"].as_bool() == Some(true) { 120 } else { 20 } => {
                let _ = child.kill();
                let _ = child.wait();
                break None;
            }
            Ok(None) => std::thread::sleep(std::time::Duration::from_millis(5)),
            Err(_) => return None,
        }
    };
    let mut out = String::new();
    if let Some(mut so) = child.stdout.take() {
        let _ = so.read_to_string(&mut out);
    }
    // the case is written again (under the property's name) if it is reported
    let _ = std::fs::remove_file(&path);
    use std::os::unix::process::ExitStatusExt;
    let st = st?;
    if !out.contains("ORACLE-DONE") && st.code() != Some(0) {
        // the bytecode interpreter (the oracle of this replay) did not get through: nothing is shown about the JIT
        return None;
    }
    if let Some(sig) = st.signal() {
        return Some(format!("native JIT run died with signal {}", sig));
    }
    match st.code() {
        Some(1) => Some(out.lines().find(|l| l.starts_with("REPRODUCED")).unwrap_or("REPRODUCED").to_string()),
        Some(77) => Some("native run faulted on a guard page: access outside the owned allocation".to_string()),
        Some(101) => Some("native run panicked".to_string()),
        _ => None,
    }
}

fn lemma<C: CellType>(shift: isize, min_acc: isize, max_acc: isize, res: &mut Out) {
    let wb = (C::BITS / 8) as u64;
    let mk = |insts: Vec<Instr<C>>| Program::<C> { temps: 0, min_accessed: min_acc, max_accessed: max_acc, live: vec![0; insts.len()], insts };
    let far = is_far(C::BITS, shift, min_acc, max_acc);
    SMALL_LIMIT.with(|l| l.set(4096 + (max_acc - min_acc) as u64));
    let built = std::panic::catch_unwind(std::panic::AssertUnwindSafe(|| {
        (BaseJitCompiler::<C>::verif_from_bytecode(mk(vec![Instr::Mov(shift)])).print_mc(false, true), BaseJitCompiler::<C>::verif_from_bytecode(mk(vec![])).print_mc(false, true))
    }));
    let (code, empty) = match built {
        Ok(x) => x,
        Err(_) => {
            // code generation itself panicked (e.g. an arithmetic overflow check of a debug build)
            res.configurations += 1;
            res.lemmas += 1;
            let why = crate::engine::LAST_PANIC.with(|p| p.borrow_mut().take()).unwrap_or_else(|| "panic".into());
            let tag = format!("w{} shift {} window [{}, {}]: machine code is generated for the move", C::BITS, shift, min_acc, max_acc);
            let mut v = json!({"kind": "probe", "property": PROPERTY.with(|p| p.get()), "width": C::BITS, "shift": shift, "min": min_acc, "max": max_acc, "lemma": "machine code is generated for the move", "what": tag, "model": format!("code generation panicked: {}", why), "far": far, "size": (max_acc - min_acc + 1) as u64, "k": -(min_acc as i64), "id": 900_000 + res.failing.len() as u64});
            if let Some(n) = confirm_child(&v) {
                v["native"] = json!(n);
                res.failing_confirmed_natively += 1;
            }
            res.failing.push(v);
            return;
        }
    };
    // the epilogue is the common suffix of the two functions
    let mut epi = 0;
    while epi < empty.len() && epi < code.len() && empty[empty.len() - 1 - epi] == code[code.len() - 1 - epi] {
        epi += 1;
    }
    let stop = code.len() - epi;
    let entry = BaseJitCompiler::<C>::verif_runtime_entry_points();
    let probe = if shift < 0 { min_acc } else { max_acc };
    engine::init(Kind::Portfolio, 20_000, Limits { max_decisions: 16, max_paths: 8, max_ops: 100_000 }, HashMode::Uniform, IoCfg::default());
    with(|c| {
        c.width = 64;
        c.job_deadline = None;
    });
    res.configurations += 1;
    let ex = explore(|| {
        let mut obs: Vec<Obs> = Vec::new();
        let k = |v: u64| with(|c| c.ar.konst(64, v));
        let (buffer, size, ptr, budget) = with(|c| (c.ar.var(64, 1), c.ar.var(64, 2), c.ar.var(64, 3), c.ar.var(64, 4)));
        // ---- preconditions: a real block, an aligned pointer whose whole window is inside it
        let size_bytes = with(|c| c.ar.scale(64, size, wb));
        let end = with(|c| c.ar.add(64, buffer, size_bytes));
        let two60 = k(1 << 60);
        let two62 = k(1 << 62);
        let ok = assume(with(|c| c.ar.ult_lit(64, size, two60)), true)
            && assume(with(|c| c.ar.ult_lit(64, buffer, two62)), true)
            && assume(with(|c| c.ar.eq_lit(64, size, 0)), false)
            && {
                let rel = with(|c| c.ar.sub(64, ptr, buffer));
                let m = k(wb - 1);
                let low = with(|c| c.ar.and(64, rel, m));
                assume(with(|c| c.ar.eq_lit(64, low, 0)), true)
            }
            && {
                // buffer <= ptr + min*w  and  ptr + max*w < end
                let lo = with(|c| {
                    let d = c.ar.konst(64, (min_acc as i64 * wb as i64) as u64);
                    c.ar.add(64, ptr, d)
                });
                let hi = with(|c| {
                    let d = c.ar.konst(64, (max_acc as i64 * wb as i64) as u64);
                    c.ar.add(64, ptr, d)
                });
                assume(with(|c| c.ar.ult_lit(64, lo, buffer)), false) && assume(with(|c| c.ar.ult_lit(64, hi, end)), true) && assume(with(|c| c.ar.ult_lit(64, lo, end)), true) && assume(with(|c| c.ar.ult_lit(64, hi, buffer)), false)
            };
        if !ok {
            obs.push(("preconditions".into(), None, "trivially false".into(), None));
            return obs;
        }
        if let Err(e) = refresh_witness() {
            obs.push(("preconditions".into(), None, e, None));
            return obs;
        }
        let mut env = ProbeEnv { w: C::BITS as u8, buffer, size, offset: with(|c| c.ar.var(64, 1000)), budget, old_size: size, entry_extend: entry[0], called: None, after: None };
        let mut st = State::new(ENTRY_RSP);
        st.regs[RDI] = k(CTX_ADDR);
        st.regs[RSI] = ptr;
        st.stop_at = Some(stop);
        match st.run(&code, &mut env, 10_000, true) {
            Exit::Stopped => {}
            other => {
                obs.push(("the move sequence runs to the epilogue".into(), Some(false), format!("{:?}", other), None));
                return obs;
            }
        }
        let rbp = st.regs[RBP];
        let moved = with(|c| {
            let d = c.ar.konst(64, (shift as i64 * wb as i64) as u64);
            c.ar.add(64, ptr, d)
        });
        let probed_old = with(|c| {
            let d = c.ar.konst(64, (probe as i64 * wb as i64) as u64);
            c.ar.add(64, moved, d)
        });
        match (&env.called, &env.after) {
            (None, _) => {
                // fast path: pointer moved, probed cell inside the block
                must_hold("fast path: rbp = ptr + shift*w", with(|c| c.ar.eq_lit(64, rbp, moved)), true, wb, &mut obs);
                must_hold("fast path: probed cell not below the block", with(|c| c.ar.ult_lit(64, probed_old, buffer)), false, wb, &mut obs);
                must_hold("fast path: probed cell below the end of the block", with(|c| c.ar.ult_lit(64, probed_old, end)), true, wb, &mut obs);
                // the window invariant is re-established for the moved pointer
                let (lo2, hi2) = with(|c| {
                    let a = c.ar.konst(64, (min_acc as i64 * wb as i64) as u64);
                    let b = c.ar.konst(64, (max_acc as i64 * wb as i64) as u64);
                    (c.ar.add(64, rbp, a), c.ar.add(64, rbp, b))
                });
                must_hold("fast path: window start not below the block", with(|c| c.ar.ult_lit(64, lo2, buffer)), false, wb, &mut obs);
                must_hold("fast path: window start below the end", with(|c| c.ar.ult_lit(64, lo2, end)), true, wb, &mut obs);
                must_hold("fast path: window end not below the block", with(|c| c.ar.ult_lit(64, hi2, buffer)), false, wb, &mut obs);
                must_hold("fast path: window end below the end", with(|c| c.ar.ult_lit(64, hi2, end)), true, wb, &mut obs);
            }
            (Some((amin, amax, rec_off)), Some((nb, ns, added))) => {
                // the call is extend(cxt, 0, 1) with the probed cell's index recorded as offset
                must_hold("slow path: extend is asked for the range [0, 1)", with(|c| c.ar.eq_lit(64, *amin, 0)), true, wb, &mut obs);
                let one = k(1);
                must_hold("slow path: extend is asked for the range [0, 1) (end)", with(|c| c.ar.eq_lit(64, *amax, one)), true, wb, &mut obs);
                // recorded offset = index of the probed cell relative to the old buffer (may be outside)
                let idx_bytes = with(|c| c.ar.sub(64, probed_old, buffer));
                let rec_bytes = with(|c| c.ar.scale(64, *rec_off, wb));
                must_hold("slow path: the recorded offset is the index of the probed cell", with(|c| c.ar.eq_lit(64, rec_bytes, idx_bytes)), true, wb, &mut obs);
                // contract of make_accessible(0,1): new offset = rec_off + added is inside the new block
                // (assumed: that is what E5 L1 proves); then rbp must denote the moved logical cell:
                // rbp + probe*w == nb + (rec_off + added)*w
                let new_off = with(|c| c.ar.add(64, *rec_off, *added));
                let new_cell = with(|c| {
                    let b = c.ar.scale(64, new_off, wb);
                    c.ar.add(64, *nb, b)
                });
                let rbp_probe = with(|c| {
                    let d = c.ar.konst(64, (probe as i64 * wb as i64) as u64);
                    c.ar.add(64, rbp, d)
                });
                must_hold("slow path: after re-basing, rbp + probe*w is the probed cell in the new block", with(|c| c.ar.eq_lit(64, rbp_probe, new_cell)), true, wb, &mut obs);
                // window invariant in the new block
                let nend = with(|c| {
                    let b = c.ar.scale(64, *ns, wb);
                    c.ar.add(64, *nb, b)
                });
                let (lo2, hi2) = with(|c| {
                    let a = c.ar.konst(64, (min_acc as i64 * wb as i64) as u64);
                    let b = c.ar.konst(64, (max_acc as i64 * wb as i64) as u64);
                    (c.ar.add(64, rbp, a), c.ar.add(64, rbp, b))
                });
                must_hold("slow path: window start not below the new block", with(|c| c.ar.ult_lit(64, lo2, *nb)), false, wb, &mut obs);
                must_hold("slow path: window start below the new end", with(|c| c.ar.ult_lit(64, lo2, nend)), true, wb, &mut obs);
                must_hold("slow path: window end not below the new block", with(|c| c.ar.ult_lit(64, hi2, *nb)), false, wb, &mut obs);
                must_hold("slow path: window end below the new end", with(|c| c.ar.ult_lit(64, hi2, nend)), true, wb, &mut obs);
            }
            _ => obs.push(("extend bookkeeping".into(), None, "inconsistent".into(), None)),
        }
        obs
    });
    for p in ex.paths {
        match p.end {
            PathEnd::Done(obs) => {
                for (name, verdict, detail, geo) in obs {
                    res.lemmas += 1;
                    let tag = format!("w{} shift {} window [{}, {}]: {}", C::BITS, shift, min_acc, max_acc, name);
                    match verdict {
                        Some(true) => res.discharged += 1,
                        Some(false) => {
                            let mut v = json!({"kind": "probe", "property": PROPERTY.with(|p| p.get()), "width": C::BITS, "shift": shift, "min": min_acc, "max": max_acc, "lemma": name, "what": tag, "model": detail, "far": far, "id": res.failing.len() as u64 * 1000 + (C::BITS as u64) * 7 + (shift as i64 as u64 % 997)});
                            if let Some((size, k)) = geo {
                                v["size"] = json!(size);
                                v["k"] = json!(k);
                                if let Some(n) = confirm_child(&v) {
                                    v["native"] = json!(n);
                                    res.failing_confirmed_natively += 1;
                                }
                            }
                            res.failing.push(v)
                        }
                        None => res.undecided.push(format!("{} :: {}", tag, detail)),
                    }
                }
            }
            PathEnd::Abort(a) => res.undecided.push(format!("w{} shift {}: {:?}", C::BITS, shift, a)),
            PathEnd::Panic(s) => res.undecided.push(format!("w{} shift {}: model panic {}", C::BITS, shift, s)),
        }
    }
    res.stats.add(&engine::take_stats());
}

pub fn run_one(bits: u32, s: isize, mn: isize, mx: isize) -> Out {
    let mut out = Out::default();
    match bits {
        8 => lemma::<u8>(s, mn, mx, &mut out),
        16 => lemma::<u16>(s, mn, mx, &mut out),
        32 => lemma::<u32>(s, mn, mx, &mut out),
        _ => lemma::<u64>(s, mn, mx, &mut out),
    }
    out
}

/// A byte displacement of the move or of the window does not fit the 32-bit fields the code generator uses.
pub fn is_far(bits: u32, shift: isize, mn: isize, mx: isize) -> bool {
    let w = (bits / 8) as i128;
    [shift, mn, mx, -mn, -mx].iter().any(|&x| {
        let b = x as i128 * w;
        b > i32::MAX as i128 || b < i32::MIN as i128
    })
}

/// The configurations, most informative first (the quick tier gets as far as its time allows).
pub fn configurations() -> Vec<(u32, isize, isize, isize)> {
    let windows: [(isize, isize); 4] = [(-3, 5), (0, 0), (-1, 0), (0, 17)];
    let shifts: [isize; 8] = [1, -1, -3, 7, 2, -8, 1000, -4097];
    let mut v = Vec::new();
    for (wi, &(mn, mx)) in windows.iter().enumerate() {
        for (si, &s) in shifts.iter().enumerate() {
            for (bi, bits) in [64u32, 8, 16, 32].into_iter().enumerate() {
                // rank: spread widths, directions and windows over the front of the list
                let rank = (si / 2) * 64 + wi * 16 + ((si % 2) * 4 + bi + si + wi) % 8;
                v.push((rank, (bits, s, mn, mx)));
            }
        }
    }
    v.sort();
    let mut v: Vec<_> = v.into_iter().map(|x| x.1).collect();
    // displacement boundary: byte offsets at and just inside the 32-bit limit
    let far: [(u32, isize, isize, isize); 6] = [(64, (1 << 28) - 1, 0, 0), (64, 1 << 28, 0, 0), (64, -(1 << 28) - 1, 0, 0), (8, 1 << 31, 0, 0), (64, 1, 0, 1 << 28), (16, -3, -(1 << 30) - 1, 0)];
    for (i, f) in far.into_iter().enumerate() {
        v.insert(4 + i, f);
    }
    v
}

pub fn run() -> Out {
    run_parallel(true, 3600, "C03")
}

/// Workers pull configurations until the deadline; what was not reached is reported, never assumed.
pub fn run_parallel(thorough: bool, secs: u64, property: &'static str) -> Out {
    let deadline = std::time::Instant::now() + std::time::Duration::from_secs(secs);
    let cfgs = configurations();
    let next = std::sync::atomic::AtomicUsize::new(0);
    let threads = if thorough { 8 } else { 4 };
    let outs: Vec<Out> = std::thread::scope(|sc| {
        let hs: Vec<_> = (0..threads)
            .map(|_| {
                std::thread::Builder::new()
                    .stack_size(1 << 26)
                    .spawn_scoped(sc, || {
                        let mut o = Out::default();
                        loop {
                            let i = next.fetch_add(1, std::sync::atomic::Ordering::SeqCst);
                            if i >= cfgs.len() || std::time::Instant::now() > deadline {
                                break;
                            }
                            let (bits, s, mn, mx) = cfgs[i];
                            PROPERTY.with(|p| p.set(property));
                            match bits {
                                8 => lemma::<u8>(s, mn, mx, &mut o),
                                16 => lemma::<u16>(s, mn, mx, &mut o),
                                32 => lemma::<u32>(s, mn, mx, &mut o),
                                _ => lemma::<u64>(s, mn, mx, &mut o),
                            }
                        }
                        o
                    })
                    .unwrap()
            })
            .collect();
        hs.into_iter().map(|h| h.join().unwrap_or_default()).collect()
    });
    let mut out = Out::default();
    out.total_configurations = cfgs.len() as u64;
    for o in outs {
        out.lemmas += o.lemmas;
        out.discharged += o.discharged;
        out.configurations += o.configurations;
        out.failing_confirmed_natively += o.failing_confirmed_natively;
        out.undecided.extend(o.undecided);
        out.failing.extend(o.failing);
        out.stats.add(&o.stats);
    }
    out
}
