//! `SymCell<BITS>`: a cell type whose values are handles to SMT terms, so that the
//! real generic hpbf code (parser, optimiser, bytecode generator, interpreters,
//! `runtime::Memory`) runs natively over symbolic cell contents.

use crate::engine::{self, abort, count_op, decide, with, Abort, HashMode};
use crate::term::{mask, T};
use hpbf::CellType;
use std::cmp::Ordering;
use std::fmt;
use std::hash::{Hash, Hasher};

#[derive(Clone, Copy)]
#[repr(transparent)]
pub struct SymCell<const B: u32>(pub T);

const fn one_handle(b: u32) -> T {
    match b {
        8 => 1,
        16 => 3,
        32 => 5,
        _ => 7,
    }
}

impl<const B: u32> SymCell<B> {
    pub const W: u8 = B as u8;
    pub fn konst(v: u64) -> Self {
        SymCell(with(|c| c.ar.konst(B as u8, v)))
    }
    pub fn as_const(self) -> Option<u64> {
        with(|c| c.ar.as_const(self.0))
    }
    pub fn term(self) -> T {
        self.0
    }
    fn need_const(self, what: &str) -> u64 {
        match self.as_const() {
            Some(v) => v,
            None => {
                let s = with(|c| c.ar.show(self.0));
                abort(Abort::Inconclusive(format!("{} on symbolic value {}", what, s)))
            }
        }
    }
}

impl<const B: u32> PartialEq for SymCell<B> {
    fn eq(&self, other: &Self) -> bool {
        if self.0 == other.0 {
            return true;
        }
        count_op();
        let l = with(|c| c.ar.eq_lit(B as u8, self.0, other.0));
        decide(l)
    }
}
impl<const B: u32> Eq for SymCell<B> {}

impl<const B: u32> PartialOrd for SymCell<B> {
    fn partial_cmp(&self, other: &Self) -> Option<Ordering> {
        Some(self.cmp(other))
    }
}
impl<const B: u32> Ord for SymCell<B> {
    fn cmp(&self, other: &Self) -> Ordering {
        if self.0 == other.0 {
            return Ordering::Equal;
        }
        if let (Some(a), Some(b)) = (self.as_const(), other.as_const()) {
            return a.cmp(&b);
        }
        count_op();
        let l = with(|c| c.ar.eq_lit(B as u8, self.0, other.0));
        if decide(l) {
            return Ordering::Equal;
        }
        let l = with(|c| c.ar.ult_lit(B as u8, self.0, other.0));
        if decide(l) {
            Ordering::Less
        } else {
            Ordering::Greater
        }
    }
}

impl<const B: u32> Hash for SymCell<B> {
    fn hash<H: Hasher>(&self, state: &mut H) {
        match with(|c| c.hash_mode) {
            HashMode::Uniform => 0u64.hash(state),
            HashMode::Concrete => match self.as_const() {
                Some(v) => v.hash(state),
                None => abort(Abort::Inconclusive("symbolic cell hashed in concrete-constant mode".into())),
            },
        }
    }
}

impl<const B: u32> fmt::Debug for SymCell<B> {
    fn fmt(&self, f: &mut fmt::Formatter<'_>) -> fmt::Result {
        match self.as_const() {
            Some(v) => write!(f, "{}", v),
            None => write!(f, "{}", with(|c| c.ar.show(self.0))),
        }
    }
}

impl<const B: u32> CellType for SymCell<B> {
    const BITS: u32 = B;
    const ZERO: Self = SymCell(0);
    const ONE: Self = SymCell(one_handle(B));
    const NEG_ONE: Self = SymCell(one_handle(B) + 1);

    fn into_u64(self) -> u64 {
        self.need_const("into_u64")
    }
    fn into_i64(self) -> i64 {
        crate::term::sext64(self.need_const("into_i64"), B as u8)
    }
    fn from_u64(val: u64) -> Self {
        Self::konst(val)
    }
    fn wrapping_add(self, rhs: Self) -> Self {
        count_op();
        SymCell(with(|c| c.ar.add(B as u8, self.0, rhs.0)))
    }
    fn wrapping_mul(self, rhs: Self) -> Self {
        count_op();
        SymCell(with(|c| c.ar.mul(B as u8, self.0, rhs.0)))
    }
    fn wrapping_neg(self) -> Self {
        count_op();
        SymCell(with(|c| c.ar.neg(B as u8, self.0)))
    }
    fn bitand(self, rhs: Self) -> Self {
        count_op();
        SymCell(with(|c| c.ar.and(B as u8, self.0, rhs.0)))
    }
    fn wrapping_shr(self, by: u32) -> Self {
        count_op();
        SymCell(with(|c| c.ar.lshr(B as u8, self.0, by)))
    }
    fn wrapping_shl(self, by: u32) -> Self {
        count_op();
        SymCell(with(|c| c.ar.shl(B as u8, self.0, by)))
    }
    fn trailing_zeros(self) -> u32 {
        if let Some(v) = self.as_const() {
            return if v == 0 { B } else { v.trailing_zeros() };
        }
        for k in 0..B {
            let l = with(|c| {
                let m = c.ar.konst(B as u8, mask((k + 1) as u8));
                let a = c.ar.and(B as u8, self.0, m);
                c.ar.eq_lit(B as u8, a, 0)
            });
            if !decide(l) {
                return k;
            }
        }
        B
    }

    fn from_u8(val: u8) -> Self {
        let armed = with(|c| c.armed_input.take());
        match armed {
            Some(k) => SymCell(with(|c| c.ar.input(B as u8, k))),
            None => {
                // a constant (EOF value 0, or a literal in code under test)
                let active = with(|c| c.active);
                let _ = active;
                Self::konst(val as u64)
            }
        }
    }

    fn into_u8(self) -> u8 {
        let prev = with(|c| if c.no_output { None } else { c.parked_out.replace(self.0) });
        if prev.is_some() {
            with(|c| c.seam_errors.push("into_u8 called twice without an output".into()));
        }
        // placeholder byte: the witness value of the low 8 bits
        with(|c| {
            c.ar.new_eval_epoch();
            let w = c.wit.clone();
            c.ar.eval(self.0, &w) as u8
        })
    }
}

pub fn _unused() {
    let _ = engine::Limits::quick();
}
