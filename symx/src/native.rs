//! Native replay: the real back ends on real `u8/u16/u32/u64` cells (including the real
//! JIT executing its own machine code) against the concrete reference interpreter.

use crate::refbf::{self, NEvent, NativeDom, RefStatus};
use crate::subject::{self, Backend, Mode, Ret};
use hpbf::CellType;
use serde_json::{json, Value};
use std::cell::RefCell;
use std::io::{self, Read, Write};
use std::rc::Rc;

pub type Log = Rc<RefCell<Vec<NEvent>>>;

pub struct NReader {
    pub data: Vec<u8>,
    pub pos: usize,
    pub log: Log,
    pub fail_at: Option<u32>,
    pub count: u32,
}

impl Read for NReader {
    fn read(&mut self, buf: &mut [u8]) -> io::Result<usize> {
        if buf.is_empty() {
            return Ok(0);
        }
        let k = self.count;
        self.count += 1;
        if self.fail_at == Some(k) {
            self.log.borrow_mut().push(NEvent::InFail);
            return Err(io::Error::new(io::ErrorKind::Other, "injected"));
        }
        self.log.borrow_mut().push(NEvent::In);
        if self.pos < self.data.len() {
            buf[0] = self.data[self.pos];
            self.pos += 1;
            Ok(1)
        } else {
            Ok(0)
        }
    }
}

pub struct NWriter {
    pub log: Log,
    pub fail_at: Option<u32>,
    pub ok0: bool,
    pub count: u32,
}

impl Write for NWriter {
    fn write(&mut self, buf: &[u8]) -> io::Result<usize> {
        if buf.is_empty() {
            return Ok(0);
        }
        let k = self.count;
        self.count += 1;
        if self.fail_at == Some(k) {
            self.log.borrow_mut().push(NEvent::OutFail(buf[0]));
            if self.ok0 {
                return Ok(0);
            }
            return Err(io::Error::new(io::ErrorKind::Other, "injected"));
        }
        self.log.borrow_mut().push(NEvent::Out(buf[0]));
        Ok(1)
    }
    fn flush(&mut self) -> io::Result<()> {
        Ok(())
    }
}

#[derive(Clone, Debug)]
pub struct Case {
    pub property: String,
    pub backend: Backend,
    pub width: u32,
    pub level: u32,
    pub mode: Mode,
    pub program: String,
    pub input: Vec<u8>,
    pub fail_read_at: Option<u32>,
    pub fail_write_at: Option<u32>,
    pub out_ok0: bool,
    pub no_input: bool,
    pub no_output: bool,
    pub note: String,
    pub profile: String,
    /// 0 = system allocator, 1 = guard page right of every tape/context block, 2 = left
    pub guard: u8,
}

fn mode_json(m: Mode) -> Value {
    match m {
        Mode::Full => json!({"kind": "full"}),
        Mode::Limited(b) => json!({"kind": "limited", "budget": b as u64}),
        Mode::Unsafe(r) => json!({"kind": "unsafe", "region": r as i64}),
    }
}

fn mode_from(v: &Value) -> Mode {
    match v["kind"].as_str().unwrap_or("full") {
        "limited" => Mode::Limited(v["budget"].as_u64().unwrap_or(0) as usize),
        "unsafe" => Mode::Unsafe(v["region"].as_i64().unwrap_or(0) as isize),
        _ => Mode::Full,
    }
}

impl Case {
    pub fn to_json(&self) -> Value {
        json!({
            "property": self.property,
            "backend": self.backend.name(),
            "width": self.width,
            "level": self.level,
            "mode": mode_json(self.mode),
            "program": self.program,
            "input": self.input,
            "fail_read_at": self.fail_read_at,
            "fail_write_at": self.fail_write_at,
            "out_ok0": self.out_ok0,
            "no_input": self.no_input,
            "no_output": self.no_output,
            "note": self.note,
            "profile": self.profile,
            "guard": self.guard,
        })
    }
    pub fn from_json(v: &Value) -> Option<Case> {
        Some(Case {
            property: v["property"].as_str()?.to_string(),
            backend: Backend::parse(v["backend"].as_str()?)?,
            width: v["width"].as_u64()? as u32,
            level: v["level"].as_u64()? as u32,
            mode: mode_from(&v["mode"]),
            program: v["program"].as_str()?.to_string(),
            input: v["input"].as_array()?.iter().map(|x| x.as_u64().unwrap_or(0) as u8).collect(),
            fail_read_at: v["fail_read_at"].as_u64().map(|x| x as u32),
            fail_write_at: v["fail_write_at"].as_u64().map(|x| x as u32),
            out_ok0: v["out_ok0"].as_bool().unwrap_or(false),
            no_input: v["no_input"].as_bool().unwrap_or(false),
            no_output: v["no_output"].as_bool().unwrap_or(false),
            note: v["note"].as_str().unwrap_or("").to_string(),
            profile: v["profile"].as_str().unwrap_or("").to_string(),
            guard: v["guard"].as_u64().unwrap_or(0) as u8,
        })
    }
}

pub struct NativeRun {
    pub ret: Result<Ret, String>,
    pub events: Vec<NEvent>,
}

fn run_typed<C: CellType>(case: &Case) -> NativeRun {
    let log: Log = Rc::new(RefCell::new(Vec::new()));
    let exec = match subject::build::<C>(case.backend, &case.program, case.level) {
        Ok(e) => e,
        Err(e) => return NativeRun { ret: Err(format!("create failed: {}", e)), events: vec![] },
    };
    let input: Option<Box<dyn Read>> = if case.no_input {
        None
    } else {
        Some(Box::new(NReader { data: case.input.clone(), pos: 0, log: log.clone(), fail_at: case.fail_read_at, count: 0 }))
    };
    let output: Option<Box<dyn Write>> = if case.no_output {
        None
    } else {
        Some(Box::new(NWriter { log: log.clone(), fail_at: case.fail_write_at, ok0: case.out_ok0, count: 0 }))
    };
    crate::guard::set_case(&case.to_json().to_string());
    crate::guard::set_mode(case.guard);
    let ret = subject::run::<C>(&*exec, case.mode, input, output);
    crate::guard::set_mode(0);
    let events = log.borrow().clone();
    NativeRun { ret: Ok(ret), events }
}

pub fn run_native(case: &Case) -> NativeRun {
    match case.width {
        8 => run_typed::<u8>(case),
        16 => run_typed::<u16>(case),
        32 => run_typed::<u32>(case),
        _ => run_typed::<u64>(case),
    }
}

pub struct NativeRef {
    pub status: RefStatus,
    pub events: Vec<NEvent>,
    pub steps: u64,
    pub min_ptr: i64,
    pub max_ptr: i64,
}

pub fn run_ref_native(case: &Case, max_steps: u64) -> NativeRef {
    let mut dom = NativeDom::new(case.width, &case.input);
    dom.fail_read_at = case.fail_read_at;
    dom.fail_write_at = case.fail_write_at;
    dom.no_input = case.no_input;
    let r = refbf::run(&mut dom, &case.program, max_steps, true);
    let mut events = dom.events;
    if case.no_input {
        events.retain(|e| *e != NEvent::InFail);
    }
    if case.no_output {
        events.retain(|e| !matches!(e, NEvent::Out(_)));
    }
    NativeRef { status: r.status, events, steps: r.steps, min_ptr: r.min_ptr, max_ptr: r.max_ptr }
}

fn is_prefix(a: &[NEvent], b: &[NEvent]) -> bool {
    a.len() <= b.len() && a == &b[..a.len()]
}

/// Decide natively whether `case` violates its property.  Returns Some(description) if it does.
pub fn judge(case: &Case) -> Result<Option<String>, String> {
    if case.note.starts_with("nondeterministic-compile") {
        let first = subject::compiled_rendering_w(case.backend, &case.program, case.level, case.width);
        for i in 0..24 {
            let again = subject::compiled_rendering_w(case.backend, &case.program, case.level, case.width);
            if again != first {
                return Ok(Some(format!("compilation {} of the same (source, width, level) rendered differently from the first:\n--- first\n{}\n--- other\n{}", i + 2, first.unwrap_or_default().lines().take(40).collect::<Vec<_>>().join("\n"), again.unwrap_or_default().lines().take(40).collect::<Vec<_>>().join("\n"))));
            }
        }
        return Ok(None);
    }
    let r = run_ref_native(case, 50_000_000);
    let s = run_native(case);
    let ret = match &s.ret {
        Ok(r) => r.clone(),
        Err(e) => return Err(e.clone()),
    };
    let show = |e: &[NEvent]| format!("{:?}", &e[..e.len().min(40)]);
    match (&r.status, case.mode) {
        (RefStatus::Truncated, _) => Err("reference run exceeded the replay step cap".into()),
        (RefStatus::Halted, Mode::Full) | (RefStatus::Halted, Mode::Unsafe(_)) | (RefStatus::Faulted, Mode::Full) => {
            if ret != Ret::Ok {
                return Ok(Some(format!("call returned {:?}", ret)));
            }
            if s.events != r.events {
                return Ok(Some(format!("events differ: reference {} subject {}", show(&r.events), show(&s.events))));
            }
            Ok(None)
        }
        (RefStatus::Halted, Mode::Limited(_)) | (RefStatus::Faulted, Mode::Limited(_)) => match ret {
            Ret::Finished(true) => {
                if s.events != r.events {
                    Ok(Some(format!("reported finished but events differ: reference {} subject {}", show(&r.events), show(&s.events))))
                } else {
                    Ok(None)
                }
            }
            Ret::Finished(false) => {
                if !is_prefix(&s.events, &r.events) {
                    Ok(Some(format!("interrupted run is not a prefix: reference {} subject {}", show(&r.events), show(&s.events))))
                } else if case.note.contains("must-finish") {
                    Ok(Some("reported interrupted under an effectively unlimited budget although the canonical run halts".into()))
                } else {
                    Ok(None)
                }
            }
            other => Ok(Some(format!("call returned {:?}", other))),
        },
        (RefStatus::Divergent { .. }, Mode::Limited(_)) => match ret {
            Ret::Finished(true) => Ok(Some(format!("reported finished although the canonical run diverges; subject events {}", show(&s.events)))),
            Ret::Finished(false) => {
                // events must be a prefix of the (periodic) reference stream: extend the reference
                let mut dom = NativeDom::new(case.width, &case.input);
                dom.fail_read_at = case.fail_read_at;
                dom.fail_write_at = case.fail_write_at;
                let _ = refbf::run(&mut dom, &case.program, 2_000_000, false);
                if !is_prefix(&s.events, &dom.events) && s.events.len() <= dom.events.len() {
                    Ok(Some(format!("events of the interrupted run are not a prefix of the canonical stream: subject {}", show(&s.events))))
                } else {
                    Ok(None)
                }
            }
            other => Ok(Some(format!("call returned {:?}", other))),
        },
        (RefStatus::Divergent { .. }, _) => {
            // the subject returned from an unlimited run of a divergent program
            Ok(Some(format!("unlimited execution returned although the canonical run diverges; subject events {}", show(&s.events))))
        }
        (RefStatus::Faulted, Mode::Unsafe(_)) => Err("fault injection is not combined with unsafe mode".into()),
    }
}
