//! C03 (a): selector lemmas.  For every instruction form the JIT's selector distinguishes
//! (operand kinds x aliasing x immediate class x live mask x width) a tiny bytecode program
//! `load operands; FORM; store results` is built by hand (hook `verif_from_bytecode`), the
//! real selector/encoder produce its machine code, the x86 model runs it from a state in
//! which every register, stack slot and tape cell is arbitrary, and the solver decides
//! whether the final tape can differ from the bytecode semantics.

use crate::engine::{self, explore, feasible, with, HashMode, IoCfg, Limits, PathEnd};
use crate::solver::{Answer, Kind, Stats};
use crate::term::{mask, Witness, T};
use crate::x86env;
use hpbf::bc::{Instr, Loc, Program};
use hpbf::exec::{BaseJitCompiler, BcInterpreter, Executable};
use hpbf::runtime::Context;
use hpbf::CellType;
use serde_json::{json, Value};
use std::panic::{catch_unwind, AssertUnwindSafe};

const NCELLS: usize = 16;

#[derive(Clone, Copy, Debug, PartialEq)]
pub enum K {
    Mem(isize),
    Tmp(usize),
    Imm(i64),
}

#[derive(Clone, Copy, Debug, PartialEq)]
pub enum OpK {
    Copy,
    Add,
    Sub,
    Mul,
}

#[derive(Clone, Debug)]
pub struct Form {
    pub op: OpK,
    pub dst: K,
    pub a: K,
    pub b: Option<K>,
    pub all_live: bool,
}

impl Form {
    pub fn show(&self) -> String {
        let k = |k: &K| match k {
            K::Mem(m) => format!("[{}]", m),
            K::Tmp(t) => format!("%{}", t),
            K::Imm(i) => format!("{}", i),
        };
        match &self.b {
            Some(b) => format!("{:?} {}, {}, {}{}", self.op, k(&self.dst), k(&self.a), k(b), if self.all_live { " (all live)" } else { "" }),
            None => format!("{:?} {}, {}{}", self.op, k(&self.dst), k(&self.a), if self.all_live { " (all live)" } else { "" }),
        }
    }
}

fn loc<C: CellType>(k: K) -> Loc<C> {
    match k {
        K::Mem(m) => Loc::Mem(m),
        K::Tmp(t) => Loc::Tmp(t),
        K::Imm(i) => Loc::Imm(C::from_u64(i as u64)),
    }
}

/// The bytecode program for a form, with an exact live bitmap computed by liveness analysis.
pub fn program<C: CellType>(f: &Form) -> Program<C> {
    let mut insts: Vec<Instr<C>> = Vec::new();
    let mut src_tmps: Vec<usize> = Vec::new();
    for k in [Some(f.a), f.b].into_iter().flatten() {
        if let K::Tmp(t) = k {
            if !src_tmps.contains(&t) {
                src_tmps.push(t);
            }
        }
    }
    // load every source temporary from its own tape cell (cells 4..)
    for (i, &t) in src_tmps.iter().enumerate() {
        insts.push(Instr::Copy(Loc::Tmp(t), Loc::Mem(4 + i as isize)));
    }
    let form_at = insts.len();
    insts.push(match (f.op, f.b) {
        (OpK::Copy, _) => Instr::Copy(loc(f.dst), loc(f.a)),
        (OpK::Add, Some(b)) => Instr::Add(loc(f.dst), loc(f.a), loc(b)),
        (OpK::Sub, Some(b)) => Instr::Sub(loc(f.dst), loc(f.a), loc(b)),
        (OpK::Mul, Some(b)) => Instr::Mul(loc(f.dst), loc(f.a), loc(b)),
        _ => unreachable!(),
    });
    if let K::Tmp(d) = f.dst {
        insts.push(Instr::Copy(Loc::Mem(8), Loc::Tmp(d)));
    }
    if f.all_live {
        for (i, &t) in src_tmps.iter().enumerate() {
            if K::Tmp(t) != f.dst {
                insts.push(Instr::Copy(Loc::Mem(9 + i as isize), Loc::Tmp(t)));
            }
        }
    }
    // liveness: temp t is live across instruction i iff written before i and read after i
    let n = insts.len();
    let reads = |ins: &Instr<C>| -> Vec<usize> {
        let mut v = Vec::new();
        let mut add = |l: &Loc<C>| {
            if let Loc::Tmp(t) = l {
                v.push(*t);
            }
        };
        match ins {
            Instr::Copy(_, s) => add(s),
            Instr::Add(_, a, b) | Instr::Sub(_, a, b) | Instr::Mul(_, a, b) => {
                add(a);
                add(b);
            }
            _ => {}
        }
        v
    };
    let writes = |ins: &Instr<C>| -> Option<usize> {
        match ins {
            Instr::Copy(Loc::Tmp(t), _) | Instr::Add(Loc::Tmp(t), _, _) | Instr::Sub(Loc::Tmp(t), _, _) | Instr::Mul(Loc::Tmp(t), _, _) => Some(*t),
            _ => None,
        }
    };
    let mut live = vec![0u16; n];
    for i in 0..n {
        for t in 0..16usize {
            let written_before = (0..i).any(|j| writes(&insts[j]) == Some(t));
            let read_after = (i + 1..n).any(|j| reads(&insts[j]).contains(&t));
            if written_before && read_after {
                live[i] |= 1 << t;
            }
        }
    }
    let _ = form_at;
    let temps = insts.iter().flat_map(|i| reads(i).into_iter().chain(writes(i))).map(|t| t + 1).max().unwrap_or(0);
    let (lo, hi) = window(f);
    Program { temps, min_accessed: lo, max_accessed: hi, live, insts }
}

/// The access window of a form's program: cells 0..NCELLS, widened to the form's own tape
/// operands (the displacement-boundary family uses offsets up to ±(128/size + 1)).
pub fn window(f: &Form) -> (isize, isize) {
    let mut lo = 0isize;
    let mut hi = NCELLS as isize - 1;
    for k in [Some(f.dst), Some(f.a), f.b].into_iter().flatten() {
        if let K::Mem(m) = k {
            lo = lo.min(m);
            hi = hi.max(m);
        }
    }
    (lo, hi)
}

/// Reference semantics of the same bytecode over terms.
fn reference<C: CellType>(p: &Program<C>, w: u8, cells: &[T]) -> Vec<T> {
    let mut tape = cells.to_vec();
    let lo = p.min_accessed;
    let mut temps: Vec<T> = (0..24).map(|_| with(|c| c.ar.fresh(w))).collect();
    let rd = |l: &Loc<C>, tape: &Vec<T>, temps: &Vec<T>| -> T {
        match l {
            Loc::Mem(m) | Loc::MemZero(m) => tape[(*m - lo) as usize],
            Loc::Tmp(t) => temps[*t],
            Loc::Imm(c) => with(|cx| cx.ar.konst(w, c.into_u64())),
        }
    };
    for ins in &p.insts {
        let (d, v) = match ins {
            Instr::Copy(d, s) => (*d, rd(s, &tape, &temps)),
            Instr::Add(d, a, b) => {
                let (x, y) = (rd(a, &tape, &temps), rd(b, &tape, &temps));
                (*d, with(|c| c.ar.add(w, x, y)))
            }
            Instr::Sub(d, a, b) => {
                let (x, y) = (rd(a, &tape, &temps), rd(b, &tape, &temps));
                (*d, with(|c| c.ar.sub(w, x, y)))
            }
            Instr::Mul(d, a, b) => {
                let (x, y) = (rd(a, &tape, &temps), rd(b, &tape, &temps));
                (*d, with(|c| c.ar.mul(w, x, y)))
            }
            _ => continue,
        };
        match d {
            Loc::Mem(m) | Loc::MemZero(m) => tape[(m - lo) as usize] = v,
            Loc::Tmp(t) => temps[t] = v,
            Loc::Imm(_) => {}
        }
    }
    tape
}

#[derive(Debug, Clone)]
pub enum Verdict {
    Holds,
    /// the selector has no arm for this form (`unimplemented!`): not a defect unless the generator produces it
    Unsupported,
    Fails(String, Vec<u64>),
    Undecided(String),
}

fn check_form<C: CellType>(f: &Form) -> Verdict {
    let w = C::BITS as u8;
    let p = program::<C>(f);
    let built = catch_unwind(AssertUnwindSafe(|| {
        let jit = BaseJitCompiler::<C>::verif_from_bytecode(Program { temps: p.temps, min_accessed: p.min_accessed, max_accessed: p.max_accessed, live: p.live.clone(), insts: p.insts.clone() });
        jit.print_mc(false, true)
    }));
    let code = match built {
        Ok(c) => c,
        Err(_) => return Verdict::Unsupported,
    };
    let entry = BaseJitCompiler::<C>::verif_runtime_entry_points();
    engine::init(Kind::Portfolio, 5_000, Limits { max_decisions: 64, max_paths: 8, max_ops: 100_000 }, HashMode::Uniform, IoCfg::default());
    with(|c| {
        c.width = w;
        c.job_deadline = None;
    });
    let ex = explore(|| {
        let ncells = (p.max_accessed - p.min_accessed + 1) as usize;
        let cells: Vec<T> = (0..ncells).map(|i| with(|c| c.ar.var(w, 500 + i as u32))).collect();
        let fin = x86env::run_window_at::<C>(&code, entry, p.min_accessed, &cells, 10_000);
        let fin = match fin {
            Ok(v) => v,
            Err(e) => return Verdict::Fails(format!("x86 model: {}", e), vec![]),
        };
        let exp = reference::<C>(&p, w, &cells);
        for i in 0..ncells {
            if fin[i] == exp[i] {
                continue;
            }
            let l = with(|c| c.ar.eq_lit(w, fin[i], exp[i]));
            match l {
                Err(true) => {}
                Err(false) => return Verdict::Fails(format!("tape cell {} differs (constant)", i as isize + p.min_accessed), vec![0; ncells]),
                Ok(l) => {
                    let mut m = Witness::default();
                    match feasible(&[l.not()], Some(&mut m)) {
                        Answer::Unsat => {}
                        Answer::Sat => {
                            let vals: Vec<u64> = (0..ncells).map(|k| m.vars.get(&(500 + k as u32)).copied().unwrap_or(0) & mask(w)).collect();
                            return Verdict::Fails(format!("tape cell {} can differ from the bytecode semantics", i as isize + p.min_accessed), vals);
                        }
                        Answer::Unknown(s) => return Verdict::Undecided(s),
                    }
                }
            }
        }
        Verdict::Holds
    });
    match ex.paths.into_iter().next().map(|p| p.end) {
        Some(PathEnd::Done(v)) => v,
        Some(PathEnd::Abort(a)) => Verdict::Undecided(format!("{:?}", a)),
        Some(PathEnd::Panic(s)) => Verdict::Undecided(format!("panic in the model: {}", s)),
        None => Verdict::Undecided("no path".into()),
    }
}

/// Native confirmation: the real JIT executing its own code for the hand-built bytecode
/// against the real bytecode interpreter on the same bytecode, from the model's tape values.
fn confirm_native<C: CellType>(f: &Form, vals: &[u64]) -> Option<String> {
    let p = program::<C>(f);
    let mk = || Program::<C> { temps: p.temps, min_accessed: p.min_accessed, max_accessed: p.max_accessed, live: p.live.clone(), insts: p.insts.clone() };
    let run = |jit: bool| -> Vec<u64> {
        let mut cxt = Context::<C>::without_io();
        cxt.memory.make_accessible(p.min_accessed, p.max_accessed + 1);
        for (i, v) in vals.iter().enumerate() {
            cxt.memory.write(p.min_accessed + i as isize, C::from_u64(*v));
        }
        if jit {
            let e = BaseJitCompiler::<C>::verif_from_bytecode(mk());
            let _ = e.execute(&mut cxt);
        } else {
            let e = BcInterpreter::<C>::verif_from_bytecode(mk());
            let _ = e.execute(&mut cxt);
        }
        (0..vals.len()).map(|i| cxt.memory.read(p.min_accessed + i as isize).into_u64()).collect()
    };
    let a = run(true);
    let b = run(false);
    if a != b {
        Some(format!("native: JIT tape {:?} vs bytecode interpreter tape {:?}", a, b))
    } else {
        None
    }
}

pub fn forms(imm_classes: &[i64]) -> Vec<Form> {
    let mut out = Vec::new();
    let dsts = [K::Mem(0), K::Tmp(0), K::Tmp(4), K::Tmp(11)];
    for &dst in &dsts {
        let mut a_opts: Vec<K> = vec![K::Mem(0), K::Mem(1), K::Tmp(1), K::Tmp(5), K::Tmp(12)];
        if let K::Tmp(_) = dst {
            a_opts.push(dst);
        }
        let mut b_opts: Vec<K> = vec![K::Mem(0), K::Mem(1), K::Mem(2), K::Tmp(1), K::Tmp(5), K::Tmp(12), K::Tmp(2), K::Tmp(6), K::Tmp(13)];
        if let K::Tmp(_) = dst {
            b_opts.push(dst);
        }
        for all_live in [false, true] {
            // copies
            for &a in a_opts.iter() {
                if a != dst {
                    out.push(Form { op: OpK::Copy, dst, a, b: None, all_live });
                }
            }
            for &i in imm_classes {
                out.push(Form { op: OpK::Copy, dst, a: K::Imm(i), b: None, all_live });
            }
            for op in [OpK::Add, OpK::Sub, OpK::Mul] {
                for &a in a_opts.iter() {
                    for &b in b_opts.iter() {
                        out.push(Form { op, dst, a, b: Some(b), all_live });
                    }
                    for &i in imm_classes {
                        out.push(Form { op, dst, a, b: Some(K::Imm(i)), all_live });
                    }
                }
            }
        }
    }
    out
}

/// Displacement-boundary family: the encoder picks an 8-bit or a 32-bit displacement per
/// memory operand, so tape operands whose *byte* displacement is 128 - size, 128, 128 + size
/// (and the negatives) and stack temporaries at [rsp+120], [rsp+128], [rsp+136] (indices 15,
/// 16, 17) are put through the same lemma (machine code of the form == bytecode semantics,
/// all cells of the window symbolic).  `forms` keeps to offsets 0..2 and temporaries <= 13,
/// which never leave the 8-bit range.
pub fn disp_forms(cell_bytes: isize) -> Vec<Form> {
    let mut out = Vec::new();
    let e = 128 / cell_bytes;
    let mut offs: Vec<isize> = Vec::new();
    for m in [e - 1, e, e + 1] {
        offs.push(m);
        offs.push(-m);
    }
    for &m in &offs {
        for all_live in [false, true] {
            out.push(Form { op: OpK::Copy, dst: K::Mem(m), a: K::Imm(5), b: None, all_live });
            out.push(Form { op: OpK::Copy, dst: K::Mem(m), a: K::Mem(-m), b: None, all_live });
            out.push(Form { op: OpK::Copy, dst: K::Mem(m), a: K::Tmp(1), b: None, all_live });
            out.push(Form { op: OpK::Copy, dst: K::Tmp(0), a: K::Mem(m), b: None, all_live });
            out.push(Form { op: OpK::Copy, dst: K::Tmp(11), a: K::Mem(m), b: None, all_live });
            for op in [OpK::Add, OpK::Sub, OpK::Mul] {
                out.push(Form { op, dst: K::Mem(m), a: K::Mem(-m), b: Some(K::Mem(1)), all_live });
                out.push(Form { op, dst: K::Mem(m), a: K::Mem(m), b: Some(K::Imm(3)), all_live });
                out.push(Form { op, dst: K::Mem(0), a: K::Mem(m), b: Some(K::Tmp(1)), all_live });
                out.push(Form { op, dst: K::Mem(0), a: K::Tmp(5), b: Some(K::Mem(m)), all_live });
                out.push(Form { op, dst: K::Tmp(0), a: K::Mem(m), b: Some(K::Mem(-m)), all_live });
                out.push(Form { op, dst: K::Tmp(12), a: K::Mem(-m), b: Some(K::Mem(m)), all_live });
            }
        }
    }
    for t in [15usize, 16, 17] {
        for all_live in [false, true] {
            out.push(Form { op: OpK::Copy, dst: K::Tmp(t), a: K::Mem(1), b: None, all_live });
            out.push(Form { op: OpK::Copy, dst: K::Tmp(t), a: K::Imm(7), b: None, all_live });
            out.push(Form { op: OpK::Copy, dst: K::Mem(0), a: K::Tmp(t), b: None, all_live });
            out.push(Form { op: OpK::Copy, dst: K::Tmp(0), a: K::Tmp(t), b: None, all_live });
            for op in [OpK::Add, OpK::Sub, OpK::Mul] {
                out.push(Form { op, dst: K::Tmp(t), a: K::Tmp(1), b: Some(K::Mem(1)), all_live });
                out.push(Form { op, dst: K::Mem(0), a: K::Tmp(t), b: Some(K::Tmp(2)), all_live });
                out.push(Form { op, dst: K::Tmp(0), a: K::Mem(1), b: Some(K::Tmp(t)), all_live });
                out.push(Form { op, dst: K::Tmp(t), a: K::Tmp(t), b: Some(K::Imm(3)), all_live });
            }
        }
    }
    out
}

pub fn imm_classes(w: u32) -> Vec<i64> {
    let all: [i64; 15] = [0, 1, -1, 127, 128, -128, -129, i32::MAX as i64, i32::MAX as i64 + 1, i32::MIN as i64, i32::MIN as i64 - 1, u32::MAX as i64, u32::MAX as i64 + 1, i64::MAX, i64::MIN];
    let m = mask(w as u8);
    let mut seen = std::collections::HashSet::new();
    let mut v = Vec::new();
    for &i in &all {
        if seen.insert(i as u64 & m) {
            v.push(i);
        }
    }
    v
}

#[derive(Default)]
pub struct Out {
    pub forms: u64,
    pub holds: u64,
    pub unsupported: u64,
    pub undecided: Vec<String>,
    pub failing: Vec<Value>,
    pub failing_confirmed_natively: u64,
    pub stats: Stats,
}

fn run_width<C: CellType>(out: &mut Out, deadline: std::time::Instant, stride: usize, offset: usize) {
    let ds = disp_forms((C::BITS / 8) as isize);
    let nd = ds.len();
    let mut fs = ds;
    fs.extend(forms(&imm_classes(C::BITS)));
    for (i, f) in fs.iter().enumerate() {
        if i >= nd && (i - nd) % stride != offset {
            continue;
        }
        if std::time::Instant::now() > deadline {
            break;
        }
        out.forms += 1;
        match check_form::<C>(f) {
            Verdict::Holds => out.holds += 1,
            Verdict::Unsupported => out.unsupported += 1,
            Verdict::Undecided(s) => out.undecided.push(format!("w{} {}: {}", C::BITS, f.show(), s)),
            Verdict::Fails(why, vals) => {
                let native = if vals.is_empty() { None } else { catch_unwind(AssertUnwindSafe(|| confirm_native::<C>(f, &vals))).ok().flatten() };
                if native.is_some() {
                    out.failing_confirmed_natively += 1;
                }
                let mut j = form_json(f, C::BITS, &vals, &why);
                j["native"] = json!(native);
                out.failing.push(j);
            }
        }
        out.stats.add(&engine::take_stats());
    }
}

pub fn run(thorough: bool, secs: u64) -> Out {
    let mut out = Out::default();
    let t0 = std::time::Instant::now();
    let (stride, offset) = if thorough { (1, 0) } else { (1, 0) };
    let per = secs / 4;
    run_width::<u64>(&mut out, t0 + std::time::Duration::from_secs(per), stride, offset);
    run_width::<u8>(&mut out, t0 + std::time::Duration::from_secs(2 * per), stride, offset);
    run_width::<u32>(&mut out, t0 + std::time::Duration::from_secs(3 * per), stride, offset);
    run_width::<u16>(&mut out, t0 + std::time::Duration::from_secs(4 * per), stride, offset);
    out
}

// ---- reachability: which forms does the real generator produce for the corpus? ----

fn kind_sig<C: CellType>(l: &Loc<C>) -> String {
    match l {
        Loc::Mem(_) => "M".into(),
        Loc::MemZero(_) => "Z".into(),
        Loc::Tmp(t) if *t < 4 => "R".into(),
        Loc::Tmp(t) if *t < 11 => "C".into(),
        Loc::Tmp(_) => "S".into(),
        Loc::Imm(c) => {
            let v = c.into_i64();
            if v >= i32::MIN as i64 && v <= i32::MAX as i64 {
                "i".into()
            } else {
                "I".into()
            }
        }
    }
}

/// Abstract signature of an arithmetic/copy instruction: operator, operand kinds, aliasing.
pub fn signature<C: CellType>(ins: &Instr<C>) -> Option<String> {
    let same = |a: &Loc<C>, b: &Loc<C>| match (a, b) {
        (Loc::Mem(x), Loc::Mem(y)) => x == y,
        (Loc::Tmp(x), Loc::Tmp(y)) => x == y,
        _ => false,
    };
    match ins {
        Instr::Copy(d, s) => Some(format!("Copy {} {}", kind_sig(d), kind_sig(s))),
        Instr::Add(d, a, b) | Instr::Sub(d, a, b) | Instr::Mul(d, a, b) => {
            let op = match ins {
                Instr::Add(..) => "Add",
                Instr::Sub(..) => "Sub",
                _ => "Mul",
            };
            Some(format!("{} {} {} {}{}{}{}", op, kind_sig(d), kind_sig(a), kind_sig(b), if same(d, a) { " d=a" } else { "" }, if same(d, b) { " d=b" } else { "" }, if same(a, b) { " a=b" } else { "" }))
        }
        _ => None,
    }
}

pub fn form_signature<C: CellType>(f: &Form) -> String {
    let p = program::<C>(f);
    // the form is the first arithmetic instruction after the loads
    let nsrc = {
        let mut v: Vec<usize> = Vec::new();
        for k in [Some(f.a), f.b].into_iter().flatten() {
            if let K::Tmp(t) = k {
                if !v.contains(&t) {
                    v.push(t);
                }
            }
        }
        v.len()
    };
    signature(&p.insts[nsrc]).unwrap_or_default()
}

/// Signatures the real generator produces for `code` (11 registers, no fusion), all levels.
pub fn observed<C: CellType>(code: &str, set: &mut std::collections::HashMap<String, String>) {
    use hpbf::exec::Executor;
    for l in 0..4u32 {
        let r = catch_unwind(AssertUnwindSafe(|| BaseJitCompiler::<C>::create(code, l).ok().map(|j| j.verif_bytecode().insts.clone())));
        if let Ok(Some(insts)) = r {
            for i in &insts {
                if let Some(s) = signature(i) {
                    set.entry(s).or_insert_with(|| format!("L{} {}", l, crate::report::short(code)));
                }
            }
        }
    }
}

fn k_json(k: &K) -> Value {
    match k {
        K::Mem(m) => json!({"mem": m}),
        K::Tmp(t) => json!({"tmp": t}),
        K::Imm(i) => json!({"imm": i}),
    }
}

fn k_from(v: &Value) -> Option<K> {
    if let Some(m) = v.get("mem").and_then(|x| x.as_i64()) {
        return Some(K::Mem(m as isize));
    }
    if let Some(t) = v.get("tmp").and_then(|x| x.as_u64()) {
        return Some(K::Tmp(t as usize));
    }
    v.get("imm").and_then(|x| x.as_i64()).map(K::Imm)
}

pub fn form_json(f: &Form, width: u32, tape: &[u64], why: &str) -> Value {
    json!({"kind": "sel", "property": "C03", "width": width, "op": format!("{:?}", f.op), "dst": k_json(&f.dst), "a": k_json(&f.a), "b": f.b.as_ref().map(k_json), "all_live": f.all_live, "tape": tape, "form": f.show(), "why": why})
}

/// Replay of a selector-lemma counterexample: the real JIT executes its own machine code for
/// the hand-built bytecode and is compared with the real bytecode interpreter on the same
/// bytecode, natively, from the stored tape.
pub fn replay(v: &Value) -> i32 {
    let op = match v["op"].as_str() {
        Some("Copy") => OpK::Copy,
        Some("Add") => OpK::Add,
        Some("Sub") => OpK::Sub,
        _ => OpK::Mul,
    };
    let (dst, a) = match (k_from(&v["dst"]), k_from(&v["a"])) {
        (Some(d), Some(a)) => (d, a),
        _ => return 3,
    };
    let b = if v["b"].is_null() { None } else { k_from(&v["b"]) };
    let f = Form { op, dst, a, b, all_live: v["all_live"].as_bool().unwrap_or(false) };
    let tape: Vec<u64> = v["tape"].as_array().map(|a| a.iter().map(|x| x.as_u64().unwrap_or(0)).collect()).unwrap_or_default();
    let (wlo, whi) = window(&f);
    let n = (whi - wlo + 1) as usize;
    let tape = if tape.len() == n { tape } else { vec![0; n] };
    let r = match v["width"].as_u64().unwrap_or(8) {
        8 => confirm_native::<u8>(&f, &tape),
        16 => confirm_native::<u16>(&f, &tape),
        32 => confirm_native::<u32>(&f, &tape),
        _ => confirm_native::<u64>(&f, &tape),
    };
    match r {
        Some(s) => {
            println!("REPRODUCED property=C03 selector form `{}` at {} bits: {}", f.show(), v["width"], s);
            1
        }
        None => {
            println!("NOT-REPRODUCED: the JIT and the bytecode interpreter agree on this bytecode");
            0
        }
    }
}

/// All widths in parallel (each worker owns its engine).  `quick` checks every form at 64 bits
/// and every third form at the other widths.
pub fn run_parallel(thorough: bool, secs: u64) -> Out {
    let deadline = std::time::Instant::now() + std::time::Duration::from_secs(secs);
    let stride = if thorough { 1 } else { 3 };
    let outs: Vec<Out> = std::thread::scope(|s| {
        let h64 = s.spawn(move || {
            let mut o = Out::default();
            run_width::<u64>(&mut o, deadline, 1, 0);
            o
        });
        let h8 = s.spawn(move || {
            let mut o = Out::default();
            run_width::<u8>(&mut o, deadline, stride, 0);
            o
        });
        let h16 = s.spawn(move || {
            let mut o = Out::default();
            run_width::<u16>(&mut o, deadline, stride, 1 % stride);
            o
        });
        let h32 = s.spawn(move || {
            let mut o = Out::default();
            run_width::<u32>(&mut o, deadline, stride, 2 % stride);
            o
        });
        vec![h64.join().unwrap(), h8.join().unwrap(), h16.join().unwrap(), h32.join().unwrap()]
    });
    let mut out = Out::default();
    for o in outs {
        out.forms += o.forms;
        out.holds += o.holds;
        out.unsupported += o.unsupported;
        out.undecided.extend(o.undecided);
        out.failing.extend(o.failing);
        out.failing_confirmed_natively += o.failing_confirmed_natively;
        out.stats.add(&o.stats);
    }
    out
}
