mod bcval;
mod c11;
mod c14;
mod c15;
mod checks;
mod corpus;
mod engine;
mod guard;
mod io;
mod native;
mod product;
mod probe;
mod props;
mod refbf;
mod report;
mod solver;
mod subject;
mod symcell;
mod sel;
mod shapes;
mod term;
mod x86;
mod x86env;

use std::process::exit;

#[global_allocator]
static GLOBAL: guard::GuardAlloc = guard::GuardAlloc;

fn usage() -> ! {
    eprintln!("usage: symx check <PROPERTY> [--tier quick|thorough] | symx replay <file> | symx selftest");
    exit(2)
}

fn main() {
    let args: Vec<String> = std::env::args().collect();
    if args.len() < 2 {
        usage();
    }
    match args[1].as_str() {
        "selftest" => match term::selftest(report::seed()) {
            Ok(n) => println!("term normaliser self-test: {} evaluations agree", n),
            Err(e) => {
                println!("SELFTEST FAILED: {}", e);
                exit(2)
            }
        },
        "replay" => {
            if args.len() < 3 {
                usage();
            }
            guard::init();
            exit(props::replay_file(&args[2]));
        }
        "hunt" => {
            // development aid (not a registered check): concrete differential run of generated programs
            let n = args.get(2).and_then(|s| s.parse().ok()).unwrap_or(1000usize);
            props::hunt(n);
        }
        "minimize" => {
            // symx minimize <PROPERTY> <program> [width]: delta-debug a violating program (re-decided by the solver each step)
            if args.len() < 4 {
                usage();
            }
            engine::install_panic_hook();
            let w = args.get(4).and_then(|s| s.parse().ok()).unwrap_or(8);
            let tier = std::env::var("VERIF_TIER").unwrap_or_else(|_| "quick".into());
            props::minimize(&args[2], &args[3], w, &tier);
        }
        "probe" => {
            engine::install_panic_hook();
            if args.get(2).map(|s| s.as_str()) == Some("list") {
                for (i, c) in probe::configurations().iter().enumerate() {
                    println!("{:3} w{} shift {} window [{}, {}]", i, c.0, c.1, c.2, c.3);
                }
                return;
            }
            let t0 = std::time::Instant::now();
            let o = if args.len() >= 6 { probe::run_one(args[2].parse().unwrap(), args[3].parse().unwrap(), args[4].parse().unwrap(), args[5].parse().unwrap()) } else { probe::run() };
            println!("probe lemmas: {} configurations, {} lemmas, {} discharged, {} undecided, {} failing, {} queries ({:.1}s solver), {:.1}s", o.configurations, o.lemmas, o.discharged, o.undecided.len(), o.failing.len(), o.stats.queries, o.stats.seconds, t0.elapsed().as_secs_f64());
            for u in o.undecided.iter().take(20) {
                println!("  undecided: {}", u);
            }
            for f in o.failing.iter().take(20) {
                println!("  FAILING: {} :: {} :: native: {}", f["what"].as_str().unwrap_or(""), f["model"].as_str().unwrap_or(""), f["native"].as_str().unwrap_or("not confirmed"));
            }
        }
        "selsig" => {
            // development aid: which selector forms does the generator produce on the corpus?
            let progs = props::corpus_for_dev();
            let mut set = std::collections::HashMap::new();
            for p in &progs {
                sel::observed::<u8>(p, &mut set);
                sel::observed::<u64>(p, &mut set);
            }
            let mut v: Vec<_> = set.into_iter().collect();
            v.sort();
            for (k, w) in v {
                println!("{:28} {}", k, w);
            }
        }
        "prescreen" => {
            // scheduling aid of the checks (child process): native differential run of the corpus on two inputs
            let tier = args.iter().position(|a| a == "--tier").and_then(|i| args.get(i + 1)).cloned().unwrap_or_else(|| "quick".into());
            exit(props::prescreen_child(args.get(2).map(|s| s.as_str()).unwrap_or(""), &tier));
        }
        "memreplay" => {
            // symx memreplay <cell_bytes> <size> <offset> <start> <end> [check|ptr]: native replay of a geometry
            // counterexample of the E5 lemmas through the public Memory API
            let v: Vec<i64> = args[2..].iter().filter_map(|s| s.parse().ok()).collect();
            if v.len() < 5 {
                usage();
            }
            match args.get(7).map(|s| s.as_str()) {
                Some("check") => exit(props::memreplay_mode(v[0] as u32, v[1], v[2], v[3], false)),
                Some("ptr") => exit(props::memreplay_mode(v[0] as u32, v[1], v[2], v[3], true)),
                _ => {}
            }
            exit(props::memreplay(v[0] as u32, v[1], v[2], v[3], v[4]));
        }
        "corpus" => {
            // development aid: print the programs of one corpus family
            let fam = args.get(2).cloned().unwrap_or_default();
            for (t, p) in props::corpus_tagged() {
                if t.starts_with(&fam) {
                    println!("{}", p);
                }
            }
        }
        "shapes" => {
            if std::env::var("SYMX_NOISY_PANICS").is_err() {
                engine::install_panic_hook();
            }
            let secs = args.get(2).and_then(|s| s.parse().ok()).unwrap_or(30u64);
            let honour = args.get(3).map_or(false, |s| s == "once");
            let progs: Vec<String> = if let Some(p) = args.get(4) { vec![p.clone()] } else { corpus::gen_struct(report::seed(), 100).into_iter().chain(corpus::gen(report::seed(), 60)).filter(|p| p.contains('[')).collect() };
            let o = shapes::run(&progs, report::seed(), secs, 4, honour);
            println!("shapes={} consts={} paths={} optimiser_runs={} cmps={} truncated={} inconclusive={} candidates={} queries={}", o.shapes, o.symbolic_constants, o.paths, o.optimiser_runs, o.comparisons, o.truncated, o.inconclusive.len(), o.candidates.len(), o.stats.queries);
            for s in o.inconclusive.iter().take(5) {
                println!("INC {}", s);
            }
            for c in o.candidates.iter().take(8) {
                println!("CAND {} L{} w{} {:?} input={:?} :: {}", c.backend.name(), c.level, c.width, c.program, c.input, c.note);
            }
            for s in o.samples.iter().take(2) {
                println!("SAMPLE {}", s);
            }
        }
        "sel" => {
            engine::install_panic_hook();
            let secs = args.get(2).and_then(|s| s.parse().ok()).unwrap_or(120u64);
            let out = sel::run(false, secs);
            println!("forms={} holds={} unsupported={} undecided={} failing={} confirmed_natively={}", out.forms, out.holds, out.unsupported, out.undecided.len(), out.failing.len(), out.failing_confirmed_natively);
            for f in out.failing.iter() {
                println!("FAIL {}", f);
            }
            for u in out.undecided.iter().take(10) {
                println!("UNDECIDED {}", u);
            }
        }
        "one11" => {
            // symx one11 <program> [width]: run the C11 validator on one program verbosely
            engine::install_panic_hook();
            let w = args.get(3).and_then(|s| s.parse().ok()).unwrap_or(8);
            let cfg = c11::Cfg { limits: engine::Limits::thorough(), ref_steps: 200_000, timeout_ms: 10_000, eof_forks: 2, job_cap: std::time::Duration::from_secs(60), levels: vec![0, 1, 2, 3] };
            let out = c11::run_job(&args[2], w, &cfg);
            println!("paths={} runs={} crossed={} truncated={} inconclusive={:?}", out.paths, out.validator_runs, out.cross_validated, out.truncated, out.inconclusive.iter().take(3).collect::<Vec<_>>());
            for f in &out.findings {
                println!("FINDING L{} [{}] at {} input={:?}: {}", f.level, f.setting, f.at, f.input, f.what);
            }
        }
        "one" => {
            // symx one <PROPERTY> <program> [width] : run one job verbosely
            if args.len() < 4 {
                usage();
            }
            engine::install_panic_hook();
            guard::init();
            let w = args.get(4).and_then(|s| s.parse().ok()).unwrap_or(8);
            let tier = std::env::var("VERIF_TIER").unwrap_or_else(|_| "quick".into());
            exit(props::run_one(&args[2], &args[3], w, &tier));
        }
        "check" => {
            if args.len() < 3 {
                usage();
            }
            let mut tier = std::env::var("VERIF_TIER").unwrap_or_else(|_| "quick".into());
            let mut part: Option<String> = None;
            let mut worker = false;
            let mut i = 3;
            while i < args.len() {
                match args[i].as_str() {
                    "--tier" => {
                        tier = args.get(i + 1).cloned().unwrap_or(tier);
                        i += 2;
                    }
                    "--worker" => {
                        worker = true;
                        i += 1;
                    }
                    "--part" => {
                        part = args.get(i + 1).cloned();
                        i += 2;
                    }
                    _ => i += 1,
                }
            }
            engine::install_panic_hook();
            guard::init();
            exit(props::run_check(&args[2], &tier, part.as_deref(), worker));
        }
        _ => usage(),
    }
}
