//! Running the real hpbf back ends, generically over the cell type, so the same
//! driver code serves symbolic exploration (`SymCell<B>`) and native replay (`uN`).

use hpbf::exec::{BcInterpreter, Executable, Executor, InplaceInterpreter, IrInterpreter};
use hpbf::runtime::Context;
use hpbf::CellType;
use std::io::{Read, Write};

#[derive(Clone, Copy, PartialEq, Eq, Debug, Hash)]
pub enum Backend {
    Inplace,
    Ir,
    Bc,
    Jit,
}

impl Backend {
    pub fn name(self) -> &'static str {
        match self {
            Backend::Inplace => "inplace",
            Backend::Ir => "irint",
            Backend::Bc => "bcint",
            Backend::Jit => "basejit",
        }
    }
    pub fn parse(s: &str) -> Option<Backend> {
        match s {
            "inplace" => Some(Backend::Inplace),
            "irint" => Some(Backend::Ir),
            "bcint" => Some(Backend::Bc),
            "basejit" => Some(Backend::Jit),
            _ => None,
        }
    }
}

#[derive(Clone, Copy, PartialEq, Eq, Debug)]
pub enum Mode {
    Full,
    Limited(usize),
    /// unchecked execution on a context pre-grown to [-m, m)
    Unsafe(isize),
}

#[derive(Clone, Debug, PartialEq)]
pub enum Ret {
    /// execute / execute_unsafe returned Ok
    Ok,
    /// execute_limited returned Ok(finished)
    Finished(bool),
    /// the call returned an error
    Err(String),
}

/// Build an executor (interpreters only; the JIT is handled natively / by the x86 model).
pub fn build<'c, C: CellType>(backend: Backend, code: &'c str, level: u32) -> Result<Box<dyn Executable<C> + 'c>, String> {
    match backend {
        Backend::Inplace => InplaceInterpreter::<C>::create(code, level).map(|e| Box::new(e) as Box<dyn Executable<C> + 'c>).map_err(|e| format!("{:?}", e.kind)),
        Backend::Ir => IrInterpreter::<C>::create(code, level).map(|e| Box::new(e) as Box<dyn Executable<C> + 'c>).map_err(|e| format!("{:?}", e.kind)),
        Backend::Bc => BcInterpreter::<C>::create(code, level).map(|e| Box::new(e) as Box<dyn Executable<C> + 'c>).map_err(|e| format!("{:?}", e.kind)),
        Backend::Jit => {
            #[cfg(all(target_arch = "x86_64", target_family = "unix"))]
            {
                hpbf::exec::BaseJitCompiler::<C>::create(code, level).map(|e| Box::new(e) as Box<dyn Executable<C> + 'c>).map_err(|e| format!("{:?}", e.kind))
            }
            #[cfg(not(all(target_arch = "x86_64", target_family = "unix")))]
            {
                Err("no jit".into())
            }
        }
    }
}

pub fn run<'a, C: CellType>(exec: &dyn Executable<C>, mode: Mode, input: Option<Box<dyn Read + 'a>>, output: Option<Box<dyn Write + 'a>>) -> Ret {
    let mut cxt = Context::<C>::new(input, output);
    match mode {
        Mode::Full => match exec.execute(&mut cxt) {
            Ok(()) => Ret::Ok,
            Err(e) => Ret::Err(format!("{:?}", e.kind)),
        },
        Mode::Limited(b) => {
            cxt.budget = b;
            match exec.execute_limited(&mut cxt) {
                Ok(f) => Ret::Finished(f),
                Err(e) => Ret::Err(format!("{:?}", e.kind)),
            }
        }
        Mode::Unsafe(m) => {
            cxt.memory.make_accessible(-m, m);
            match unsafe { exec.execute_unsafe(&mut cxt) } {
                Ok(()) => Ret::Ok,
                Err(e) => Ret::Err(format!("{:?}", e.kind)),
            }
        }
    }
}

/// Compile once more and render what the executor holds (bytecode listing; for the JIT also
/// the machine code).  Used by the C13 re-compilation monitor: the rendering must depend only
/// on (source, width, level), not on the per-instance seeds of std's hash maps.
pub fn compiled_rendering<C: CellType>(backend: Backend, code: &str, level: u32) -> Option<String> {
    match backend {
        Backend::Bc => BcInterpreter::<C>::create(code, level).ok().map(|e| format!("{:?}", e.verif_bytecode())),
        Backend::Ir => hpbf::ir::Program::<C>::parse(code).ok().map(|p| format!("{:?}", p.optimize(level))),
        Backend::Jit => {
            #[cfg(all(target_arch = "x86_64", target_family = "unix"))]
            {
                hpbf::exec::BaseJitCompiler::<C>::create(code, level).ok().map(|e| format!("{:?}\n{:02x?}", e.verif_bytecode(), e.print_mc(false, true)))
            }
            #[cfg(not(all(target_arch = "x86_64", target_family = "unix")))]
            {
                None
            }
        }
        Backend::Inplace => None,
    }
}

pub fn compiled_rendering_w(backend: Backend, code: &str, level: u32, width: u32) -> Option<String> {
    match width {
        8 => compiled_rendering::<u8>(backend, code, level),
        16 => compiled_rendering::<u16>(backend, code, level),
        32 => compiled_rendering::<u32>(backend, code, level),
        _ => compiled_rendering::<u64>(backend, code, level),
    }
}
