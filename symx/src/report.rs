//! Turning job results into the interface: native replay of candidates, known-finding
//! filtering, VIOLATION lines, evidence files.

use crate::checks::JobOut;
use crate::native::Case;
use serde_json::{json, Value};
use std::collections::BTreeMap;
use std::io::Read;
use std::process::{Command, Stdio};
use std::time::{Duration, Instant};

pub fn verif_root() -> String {
    std::env::var("VERIF_ROOT").unwrap_or_else(|_| "/verif".to_string())
}

pub fn repo_root() -> String {
    std::env::var("HPBF_REPO").unwrap_or_else(|_| "/repo".to_string())
}

pub fn seed() -> u64 {
    std::env::var("VERIF_SEED").ok().and_then(|s| s.parse().ok()).unwrap_or(1)
}

fn fnv(s: &str) -> u64 {
    let mut h: u64 = 0xcbf29ce484222325;
    for b in s.bytes() {
        h ^= b as u64;
        h = h.wrapping_mul(0x100000001b3);
    }
    h
}

#[derive(Debug, Clone, PartialEq)]
pub enum Replay {
    Reproduced(String),
    NotReproduced(String),
    Error(String),
}

/// Replay a case natively in a child process (isolates crashes and non-termination).
pub fn replay_case(case: &Case, path: &str, timeout: Duration) -> Replay {
    let exe = std::env::current_exe().expect("current_exe");
    let mut child = match Command::new(exe).arg("replay").arg(path).stdout(Stdio::piped()).stderr(Stdio::piped()).spawn() {
        Ok(c) => c,
        Err(e) => return Replay::Error(format!("cannot spawn replay: {}", e)),
    };
    let t0 = Instant::now();
    let status = loop {
        match child.try_wait() {
            Ok(Some(st)) => break Some(st),
            Ok(None) => {
                if t0.elapsed() > timeout {
                    let _ = child.kill();
                    let _ = child.wait();
                    break None;
                }
                std::thread::sleep(Duration::from_millis(5));
            }
            Err(e) => return Replay::Error(format!("wait failed: {}", e)),
        }
    };
    let mut out = String::new();
    if let Some(mut so) = child.stdout.take() {
        let _ = so.read_to_string(&mut out);
    }
    let mut err = String::new();
    if let Some(mut se) = child.stderr.take() {
        let _ = se.read_to_string(&mut err);
    }
    let ref_line = out.lines().find(|l| l.starts_with("REF ")).unwrap_or("").to_string();
    match status {
        None => {
            let limited = matches!(case.mode, crate::subject::Mode::Limited(b) if b <= 4096);
            if limited && !ref_line.is_empty() {
                return Replay::Reproduced(format!("execute_limited did not return within {} s with budget {:?} ({})", timeout.as_secs(), case.mode, ref_line));
            }
            if ref_line.starts_with("REF halted") || ref_line.starts_with("REF faulted") {
                let limited = matches!(case.mode, crate::subject::Mode::Limited(_));
                Replay::Reproduced(format!("the call did not return within {} s although the canonical run stops ({}){}", timeout.as_secs(), ref_line, if limited { " [limited mode]" } else { "" }))
            } else {
                Replay::NotReproduced(format!("replay timed out, reference status unknown or divergent ({})", ref_line))
            }
        }
        Some(st) => {
            use std::os::unix::process::ExitStatusExt;
            if let Some(sig) = st.signal() {
                return Replay::Reproduced(format!("native run died with signal {} ({})", sig, ref_line));
            }
            match st.code() {
                Some(1) => Replay::Reproduced(out.lines().find(|l| l.starts_with("REPRODUCED")).unwrap_or("REPRODUCED").to_string()),
                Some(0) => Replay::NotReproduced(out.lines().find(|l| l.starts_with("NOT-REPRODUCED")).unwrap_or("").to_string()),
                Some(77) => Replay::Reproduced("native run faulted on a guard page: access outside the owned allocation".to_string()),
                Some(101) => Replay::Reproduced(format!("native run panicked: {}", err.lines().find(|l| l.contains("panicked")).unwrap_or("").trim())),
                other => Replay::Error(format!("replay exit {:?}: {} {}", other, out.trim(), err.trim())),
            }
        }
    }
}

pub struct Known {
    pub entries: Vec<Value>,
}

impl Known {
    pub fn load() -> Known {
        let p = format!("{}/known_findings.json", verif_root());
        let v: Value = std::fs::read_to_string(&p).ok().and_then(|s| serde_json::from_str(&s).ok()).unwrap_or(json!({"findings": []}));
        Known { entries: v["findings"].as_array().cloned().unwrap_or_default() }
    }

    /// A finding entry matches a case when property and backend agree and every given key matches:
    /// `program` (exact) or `program_contains`, `note_contains`, `mode` (full/limited/unsafe), `width`.
    pub fn matches(&self, case: &Case, what: &str) -> Option<String> {
        for e in &self.entries {
            if e["property"].as_str() != Some(&case.property) {
                continue;
            }
            // entries of another kind (lemma findings) never match a program case, and an entry that
            // names no program, backend or note at all would match everything: it matches nothing
            if e["probe_far_displacement"].is_boolean() || e["form_contains"].is_string() {
                continue;
            }
            if !["backend", "program", "program_contains", "note_contains", "mode", "width"].iter().any(|k| !e[*k].is_null()) {
                continue;
            }
            if let Some(b) = e["backend"].as_str() {
                if b != case.backend.name() {
                    continue;
                }
            }
            if let Some(p) = e["program"].as_str() {
                if p != case.program {
                    continue;
                }
            }
            if let Some(p) = e["program_contains"].as_str() {
                if !case.program.contains(p) {
                    continue;
                }
            }
            if let Some(p) = e["what_contains"].as_str() {
                if !what.contains(p) && !case.note.contains(p) {
                    continue;
                }
            }
            if let Some(m) = e["mode"].as_str() {
                let cm = match case.mode {
                    crate::subject::Mode::Full => "full",
                    crate::subject::Mode::Limited(_) => "limited",
                    crate::subject::Mode::Unsafe(_) => "unsafe",
                };
                if m != cm {
                    continue;
                }
            }
            if let Some(f) = e["fault"].as_str() {
                let cf = if case.fail_read_at.is_some() {
                    "input"
                } else if case.fail_write_at.is_some() {
                    "output"
                } else if case.no_input {
                    "no_input"
                } else {
                    "none"
                };
                if f != cf {
                    continue;
                }
            }
            return Some(e["id"].as_str().unwrap_or("?").to_string());
        }
        None
    }
}

pub struct Summary {
    pub property: String,
    pub violations: Vec<(Case, String, String)>,
    pub known: BTreeMap<String, (usize, String)>,
    pub not_reproduced: Vec<(Case, String)>,
    pub replay_errors: Vec<String>,
}

/// Replay, filter and print.  Returns the summary; prints VIOLATION / KNOWN-FINDING lines.
pub fn settle(property: &str, candidates: Vec<Case>, max_replays: usize) -> Summary {
    let known = Known::load();
    let mut sum = Summary { property: property.to_string(), violations: vec![], known: BTreeMap::new(), not_reproduced: vec![], replay_errors: vec![] };
    let dir = format!("{}/replays", verif_root());
    let _ = std::fs::create_dir_all(&dir);
    // de-duplicate by (backend, level, width, mode-kind, program, fault kind)
    let mut seen = std::collections::HashSet::new();
    let mut replays = 0usize;
    for case in candidates {
        let key = format!("{}|{}|{}|{:?}|{}|{:?}|{:?}|{}", case.backend.name(), case.level, case.width, std::mem::discriminant(&case.mode), case.program, case.fail_read_at.is_some(), case.fail_write_at.is_some(), case.no_input);
        if !seen.insert(key.clone()) {
            continue;
        }
        if sum.violations.len() >= 10 {
            sum.replay_errors.push("10 violations confirmed; remaining candidates not replayed".to_string());
            break;
        }
        if replays >= max_replays {
            sum.replay_errors.push("replay cap reached; remaining candidates not replayed".to_string());
            break;
        }
        replays += 1;
        let js = case.to_json();
        let path = format!("{}/{}-{:016x}.json", dir, property, fnv(&js.to_string()));
        let _ = std::fs::write(&path, serde_json::to_string_pretty(&js).unwrap());
        let cap = if case.note.starts_with("compile-timeout") { 40 } else { 5 };
        match replay_case(&case, &path, Duration::from_secs(cap)) {
            Replay::Reproduced(what) => {
                if let Some(id) = known.matches(&case, &what) {
                    let e = sum.known.entry(id).or_insert((0, format!("{} {} L{} w{} program {:?}: {}", case.backend.name(), mode_name(&case), case.level, case.width, short(&case.program), what)));
                    e.0 += 1;
                    let _ = std::fs::remove_file(&path);
                } else {
                    println!("VIOLATION property={} replay={}", property, path);
                    println!("  {} L{} w{} {:?} program={:?} input={:?} : {} [{}]", case.backend.name(), case.level, case.width, case.mode, short(&case.program), case.input, what, case.note);
                    sum.violations.push((case, what, path));
                }
            }
            Replay::NotReproduced(s) => {
                let _ = std::fs::remove_file(&path);
                sum.not_reproduced.push((case, s));
            }
            Replay::Error(s) => {
                let _ = std::fs::remove_file(&path);
                sum.replay_errors.push(s);
            }
        }
    }
    for (id, (n, what)) in &sum.known {
        println!("KNOWN-FINDING: property={} {} ({} case(s) this run; id {})", property, what, n, id);
    }
    sum
}

fn mode_name(c: &Case) -> &'static str {
    match c.mode {
        crate::subject::Mode::Full => "execute",
        crate::subject::Mode::Limited(_) => "execute_limited",
        crate::subject::Mode::Unsafe(_) => "execute_unsafe",
    }
}

pub fn short(p: &str) -> String {
    if p.len() > 80 {
        format!("{}...({} bytes)", &p[..80], p.len())
    } else {
        p.to_string()
    }
}

/// Aggregate counters of a set of jobs into a JSON object.
pub fn aggregate(outs: &[JobOut]) -> Value {
    let mut paths = 0usize;
    let mut halted = 0usize;
    let mut faulted = 0usize;
    let mut divergent = 0usize;
    let mut rtrunc = 0usize;
    let mut ptrunc = 0usize;
    let mut dropped = 0usize;
    let mut sub_runs = 0usize;
    let mut sub_trunc = 0usize;
    let mut compared = 0usize;
    let mut decisions = 0u64;
    let mut inconclusive = 0usize;
    let mut stats = crate::solver::Stats::default();
    let mut nontrivial = std::collections::HashSet::new();
    let mut programs = std::collections::HashSet::new();
    let mut inc_samples: Vec<String> = vec![];
    let mut recompilations = 0usize;
    let mut objdump_checked = 0usize;
    for o in outs {
        paths += o.paths;
        halted += o.ref_halted;
        faulted += o.ref_faulted;
        divergent += o.ref_divergent;
        rtrunc += o.ref_truncated;
        ptrunc += o.path_truncated;
        dropped += o.dropped_items;
        sub_runs += o.sub_runs;
        recompilations += o.recompilations;
        objdump_checked += o.objdump_checked;
        sub_trunc += o.sub_truncated;
        compared += o.compared;
        decisions += o.decisions;
        inconclusive += o.inconclusive.len();
        for s in o.inconclusive.iter().take(2) {
            if inc_samples.len() < 10 {
                inc_samples.push(format!("{} w{}: {}", short(&o.code), o.width, s));
            }
        }
        stats.add(&o.stats);
        programs.insert(o.code.clone());
        if o.paths >= 2 || o.stats.queries > 0 {
            nontrivial.insert((o.code.clone(), o.width));
        }
    }
    json!({
        "jobs": outs.len(),
        "programs": programs.len(),
        "distinct_nontrivial": nontrivial.len(),
        "paths": paths,
        "ref_paths_halted": halted,
        "ref_paths_faulted": faulted,
        "ref_paths_proved_divergent": divergent,
        "ref_paths_truncated_by_step_cap": rtrunc,
        "paths_truncated_by_decision_cap": ptrunc,
        "work_items_dropped_by_path_cap": dropped,
        "subject_runs": sub_runs,
        "recompilations_compared_by_the_monitor": recompilations,
        "machine_code_functions_cross_checked_against_objdump": objdump_checked,
        "subject_runs_truncated": sub_trunc,
        "event_log_comparisons": compared,
        "open_decisions": decisions,
        "inconclusive": inconclusive,
        "inconclusive_samples": inc_samples,
        "solver_queries": stats.queries,
        "solver_sat": stats.sat,
        "solver_unsat": stats.unsat,
        "solver_unknown": stats.unknown,
        "solver_seconds": (stats.seconds * 1000.0).round() / 1000.0,
    })
}

pub fn write_evidence(property: &str, v: &Value) {
    let dir = format!("{}/evidence", verif_root());
    let _ = std::fs::create_dir_all(&dir);
    let p = format!("{}/{}.json", dir, property);
    std::fs::write(&p, serde_json::to_string_pretty(v).unwrap()).expect("cannot write evidence");
}
